#!/usr/bin/env python3
"""Regenerates MANIFEST.json from props.json (claimed checks) and properties.jsonl (everything else is not_applicable)."""
import json, os
R = os.path.dirname(os.path.abspath(__file__))
props = json.load(open(os.path.join(R, "props.json")))
na = json.load(open(os.path.join(R, "not_applicable.json")))
allp = [json.loads(l) for l in open(os.path.join(R, "properties.jsonl"))]
checks = []
for p in allp:
    pid = p["id"]
    if pid not in props:
        continue
    P = props[pid]
    checks.append({
        "property_id": pid,
        "quick_cmd": "./check %s quick" % pid,
        "thorough_cmd": "./check %s thorough" % pid,
        "evidence_file": "/verif/evidence/%s.json" % pid,
        "replay_cmd_template": "./check replay {path}",
        "engine": "gosmt",
        "level_claimed": {
            "category": "model_checking",
            "text": P.get("level_text", "Bounded symbolic execution of the real ibc-go functions (go/ssa) with every obligation decided by SMT solvers for all values inside the stated bounds; counterexamples are replayed natively before being reported."),
            "design_ref": P.get("design_ref", ""),
        },
        "level_note": "Bounds: %s. Outside the claim: %s. Trusted: go/ssa, the gosmt interpreter, the SMT solvers (cvc5 1.0.3, z3 5.1/4.8.12), and the stubs listed in the evidence file: %s" % (
            P.get("bounds", {}).get("quick", "see evidence"), P.get("outside", "-"), "; ".join(P.get("assumptions", [])) or "none beyond the verif intrinsics"),
        "technique": "solver-based bounded symbolic execution of the real Go code (go/ssa -> SMT-LIB; cvc5 + z3 portfolio), native replay of counterexamples",
    })
m = {
    "version": 1,
    "setup_cmd": "./setup.sh",
    "hooks": {
        "guard": "verif",
        "enable": "no source hooks are used: harnesses live in the separate module /verif/harness (replace ibc-go => /repo) and reach unexported code through go:linkname; the build tag 'verif' is reserved and unused",
        "baseline_off_cmd": "cd /repo && go test -mod=mod -vet=off -count=1 -timeout 25m ./...",
        "source_commits": [],
        "add_only": True,
    },
    "engines": [{"name": "gosmt", "path": "/verif/engine", "serves_properties": sorted(props.keys()),
                 "kind_free_text": "SSA-level symbolic executor for Go written for this task (fork-by-replay + if-conversion), SMT-LIB back end with a cvc5/z3 portfolio, native replay of counterexamples"}],
    "checks": checks,
    "notes": "Every check regenerates its encoding from /repo's current sources on each run. See DESIGN.md.",
    "not_applicable": [{"property_id": p["id"], "reason": na.get(p["id"], "check not built yet (work in progress; see DESIGN.md section 7 for the planned harness)")} for p in allp if p["id"] not in props],
}
json.dump(m, open(os.path.join(R, "MANIFEST.json"), "w"), indent=1)
print("checks:", len(checks), "not_applicable:", len(m["not_applicable"]))
