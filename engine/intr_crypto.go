// Intrinsics: an idealised signer. verif.Sign(msg) is an uninterpreted injective-by-assumption function sig(msg), and the
// signer's public key accepts exactly (msg, sig(msg)) — existential unforgeability as an axiom: a signature verifies
// only for the message it was made for. The native replay signs with a real secp256k1 key.
package main

import (
	"fmt"
	"go/types"

	"golang.org/x/tools/go/ssa"
)

func (e *Engine) namedType(pkgPath, name string) types.Type {
	for _, p := range e.sh.prog.AllPackages() {
		if p.Pkg.Path() == pkgPath {
			if o := p.Pkg.Scope().Lookup(name); o != nil {
				return o.Type()
			}
		}
	}
	panic(inconclusive{"type " + pkgPath + "." + name + " not in the loaded program"})
}

func structField(l *Loc, name string) *Loc {
	st := l.T.Underlying().(*types.Struct)
	for i := 0; i < st.NumFields(); i++ {
		if st.Field(i).Name() == name {
			return l.Fields[i]
		}
	}
	panic(inconclusive{"no field " + name + " in " + l.T.String()})
}

func init() {
	const secp = "github.com/cosmos/cosmos-sdk/crypto/keys/secp256k1"
	const anyT = "github.com/cosmos/gogoproto/types/any"
	const signing = "github.com/cosmos/cosmos-sdk/types/tx/signing"
	reg(vp+"SignerPubKey", func(e *Engine, fn *ssa.Function, a []Value) Value {
		t := e.namedType(secp, "PubKey")
		l := e.newLoc(t)
		store(structField(l, "Key"), StrConst("\x02signer-public-key-00000000000000"))
		return &IfaceVal{T: types.NewPointer(t), V: &PtrVal{l}}
	})
	reg(vp+"Sign", func(e *Engine, fn *ssa.Function, a []Value) Value {
		s := UF("sig", StrS, toSeq(a[0]))
		s.FixLen = 64
		return s
	})
	reg("(*"+secp+".PubKey).VerifySignature", func(e *Engine, fn *ssa.Function, a []Value) Value {
		return Eq(toSeq(a[2]), func() *T { s := UF("sig", StrS, toSeq(a[1])); s.FixLen = 64; return s }())
	})
	// Any: NewAnyWithValue keeps the value as the cached value; the wire bytes are an opaque constant
	newAny := func(e *Engine, fn *ssa.Function, a []Value) Value {
		t := e.namedType(anyT, "Any")
		l := e.newLoc(t)
		store(structField(l, "cachedValue"), a[0])
		store(structField(l, "TypeUrl"), StrConst("/verif.PubKey"))
		store(structField(l, "Value"), StrConst("public-key"))
		return Tuple{&PtrVal{l}, nil}
	}
	reg(anyT+".NewAnyWithCacheWithValue", newAny)
	// the SDK re-exports the constructor through a package-level variable
	thirdPartyGlobals["github.com/cosmos/cosmos-sdk/codec/types.NewAnyWithValue"] = func(e *Engine) Value {
		return &Closure{Intr: func(e *Engine, args []Value) Value { return newAny(e, nil, args) }}
	}
	reg("(*"+anyT+".Any).GetCachedValue", func(e *Engine, fn *ssa.Function, a []Value) Value {
		p, _ := a[0].(*PtrVal)
		if p == nil {
			return nil
		}
		return load(structField(p.L, "cachedValue"))
	})
	// signature data: verif.SignatureData(sig) is the wire form of a single signature; decoding recovers it, any other
	// bytes are refused
	reg(vp+"SignatureData", func(e *Engine, fn *ssa.Function, a []Value) Value {
		sd := UF("sigdata", StrS, toSeq(a[0]))
		e.addAxiom(fmt.Sprintf("sigdata:%d", sd.id), Not(Eq(sd, StrConst(""))))
		return sd
	})
	reg(ibcgo+"modules/light-clients/06-solomachine.UnmarshalSignatureData", func(e *Engine, fn *ssa.Function, a []Value) Value {
		bz := toSeq(a[1])
		if bz.Op == "uf" && bz.Name == "sigdata" {
			t := e.namedType(signing, "SingleSignatureData")
			l := e.newLoc(t)
			store(structField(l, "Signature"), bz.Args[0])
			return Tuple{&IfaceVal{T: types.NewPointer(t), V: &PtrVal{l}}, nil}
		}
		e.note("signature data not produced by verif.SignatureData is modelled as undecodable")
		return Tuple{nil, e.newErr("signature data")}
	})
}
