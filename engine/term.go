// Terms: structured SMT-LIB terms with light constant folding.
package main

import (
	"fmt"
	"math/big"
	"sort"
	"strconv"
	"strings"
	"sync"
	"sync/atomic"
)

type SortKind int

const (
	SBool SortKind = iota
	SBV
	SInt
	SStr
	SFP
	SArr // Array String String
)

type Sort struct {
	K SortKind
	W int
}

var (
	BoolS = Sort{K: SBool}
	IntS  = Sort{K: SInt}
	StrS  = Sort{K: SStr}
	FPS   = Sort{K: SFP}
	ArrS  = Sort{K: SArr}
)

func BVS(w int) Sort { return Sort{K: SBV, W: w} }

func (s Sort) SMT() string {
	switch s.K {
	case SBool:
		return "Bool"
	case SInt:
		return "Int"
	case SStr:
		return "String"
	case SFP:
		return "(_ FloatingPoint 11 53)"
	case SArr:
		return "(Array String String)"
	case SBV:
		return fmt.Sprintf("(_ BitVec %d)", s.W)
	}
	panic("sort")
}

// T is a term node. Constants: Op=="const". Variables: Op=="var". UF application: Op=="uf" (Name holds symbol).
type T struct {
	Op   string
	Name string
	Args []*T
	Sort Sort
	// constant payloads
	BV  uint64
	B   bool
	Str string
	Int *big.Int
	// FixLen > 0: a String-sorted term known to have exactly this length (hash outputs, big-endian words)
	FixLen int
	s      string
	id     int
}

var termCounter int64
var hcTable sync.Map // structural key -> *T (hash-consing: structurally equal terms are pointer-equal)

func hcKey(op, name string, sort Sort, args []*T) string {
	var sb strings.Builder
	sb.WriteString(op)
	sb.WriteByte('|')
	sb.WriteString(name)
	sb.WriteByte('|')
	sb.WriteString(strconv.Itoa(int(sort.K)*1000 + sort.W))
	for _, a := range args {
		sb.WriteByte('|')
		sb.WriteString(strconv.FormatInt(int64(a.id), 36))
	}
	return sb.String()
}

func intern(key string, t *T) *T {
	if old, ok := hcTable.Load(key); ok {
		return old.(*T)
	}
	t.id = int(atomic.AddInt64(&termCounter, 1))
	act, _ := hcTable.LoadOrStore(key, t)
	return act.(*T)
}

func mk(op string, sort Sort, args ...*T) *T { return mkN(op, "", sort, args...) }

func mkN(op, name string, sort Sort, args ...*T) *T {
	return intern(hcKey(op, name, sort, args), &T{Op: op, Name: name, Sort: sort, Args: args})
}

func mask(w int) uint64 {
	if w >= 64 {
		return ^uint64(0)
	}
	return (uint64(1) << uint(w)) - 1
}

func BVConst(v uint64, w int) *T {
	v &= mask(w)
	return intern("cbv|"+strconv.Itoa(w)+"|"+strconv.FormatUint(v, 16), &T{Op: "const", Sort: BVS(w), BV: v})
}
func BoolConst(b bool) *T {
	if b {
		return tTrue
	}
	return tFalse
}

var tTrue = &T{Op: "const", Sort: BoolS, B: true, id: -1}
var tFalse = &T{Op: "const", Sort: BoolS, B: false, id: -2}

func StrConst(s string) *T {
	return intern("cstr|"+s, &T{Op: "const", Sort: StrS, Str: s})
}
func IntConst(v int64) *T { return IntConstBig(big.NewInt(v)) }
func IntConstBig(v *big.Int) *T {
	return intern("cint|"+v.String(), &T{Op: "const", Sort: IntS, Int: new(big.Int).Set(v)})
}
func Var(name string, s Sort) *T { return mkN("var", name, s) }

func (t *T) IsConst() bool { return t.Op == "const" }
func (t *T) IsTrue() bool  { return t.Op == "const" && t.Sort.K == SBool && t.B }
func (t *T) IsFalse() bool { return t.Op == "const" && t.Sort.K == SBool && !t.B }

// signed value of a BV constant
func (t *T) SignedBV() int64 {
	w := uint(t.Sort.W)
	return int64(t.BV<<(64-w)) >> (64 - w)
}

func smtString(s string) string {
	var sb strings.Builder
	sb.WriteByte('"')
	for i := 0; i < len(s); i++ {
		ch := s[i]
		if ch == '"' {
			sb.WriteString(`""`)
		} else if ch < 32 || ch > 126 || ch == '\\' {
			fmt.Fprintf(&sb, `\u{%x}`, ch)
		} else {
			sb.WriteByte(ch)
		}
	}
	sb.WriteByte('"')
	return sb.String()
}

// ufSym quotes an uninterpreted function name that is not a simple symbol.
func ufSym(n string) string {
	if strings.ContainsAny(n, "#@ ()[]{}\"'`,;") {
		return quoteSym(n)
	}
	return n
}

func quoteSym(n string) string {
	return "|" + strings.NewReplacer("|", "_", "\\", "_").Replace(n) + "|"
}

// ---------- printing with sharing ----------

// printer emits terms, naming shared non-trivial subterms with define-fun so DAGs do not blow up.
type printer struct {
	refs  map[*T]int
	names map[*T]string
	defs  []string
	n     int
}

func newPrinter() *printer { return &printer{refs: map[*T]int{}, names: map[*T]string{}} }

func (p *printer) count(t *T) {
	p.refs[t]++
	if p.refs[t] > 1 {
		return
	}
	for _, a := range t.Args {
		p.count(a)
	}
}

func (p *printer) leaf(t *T) (string, bool) {
	switch t.Op {
	case "const":
		switch t.Sort.K {
		case SBool:
			if t.B {
				return "true", true
			}
			return "false", true
		case SBV:
			if t.Sort.W%4 == 0 {
				return fmt.Sprintf("#x%0*x", t.Sort.W/4, t.BV), true
			}
			return fmt.Sprintf("(_ bv%d %d)", t.BV, t.Sort.W), true
		case SStr:
			return smtString(t.Str), true
		case SInt:
			if t.Int.Sign() < 0 {
				return "(- " + new(big.Int).Neg(t.Int).String() + ")", true
			}
			return t.Int.String(), true
		case SFP:
			return t.Str, true
		}
	case "var":
		return quoteSym(t.Name), true
	}
	return "", false
}

func (p *printer) str(t *T) string {
	if s, ok := p.leaf(t); ok {
		return s
	}
	if n, ok := p.names[t]; ok {
		return n
	}
	var sb strings.Builder
	head := t.Op
	if t.Op == "uf" {
		head = ufSym(t.Name)
	}
	if t.Op == "str.in_re" {
		sb.WriteString("(str.in_re " + p.str(t.Args[0]) + " " + t.Name + ")")
	} else if len(t.Args) == 0 {
		sb.WriteString(head)
	} else {
		sb.WriteString("(" + head)
		for _, a := range t.Args {
			sb.WriteByte(' ')
			sb.WriteString(p.str(a))
		}
		sb.WriteByte(')')
	}
	s := sb.String()
	if p.refs[t] > 1 && len(s) > 24 {
		p.n++
		name := fmt.Sprintf("_s%d", p.n)
		p.defs = append(p.defs, fmt.Sprintf("(define-fun %s () %s %s)", name, t.Sort.SMT(), s))
		p.names[t] = name
		return name
	}
	return s
}

// String gives a plain (unshared) rendering, for diagnostics.
func (t *T) String() string {
	if t == nil {
		return "<nil>"
	}
	p := newPrinter()
	return p.str(t)
}

// ---------- smart constructors ----------

func Not(t *T) *T {
	if t.IsConst() {
		return BoolConst(!t.B)
	}
	if t.Op == "not" {
		return t.Args[0]
	}
	return mk("not", BoolS, t)
}
func And(a, b *T) *T {
	if a.IsTrue() {
		return b
	}
	if b.IsTrue() {
		return a
	}
	if a.IsFalse() || b.IsFalse() {
		return tFalse
	}
	if a == b {
		return a
	}
	return mk("and", BoolS, a, b)
}
func Or(a, b *T) *T {
	if a.IsFalse() {
		return b
	}
	if b.IsFalse() {
		return a
	}
	if a.IsTrue() || b.IsTrue() {
		return tTrue
	}
	if a == b {
		return a
	}
	return mk("or", BoolS, a, b)
}
func AndN(ts ...*T) *T {
	r := tTrue
	for _, t := range ts {
		r = And(r, t)
	}
	return r
}
func OrN(ts ...*T) *T {
	r := tFalse
	for _, t := range ts {
		r = Or(r, t)
	}
	return r
}
func Implies(a, b *T) *T { return Or(Not(a), b) }

func Ite(c, a, b *T) *T {
	if c.IsTrue() {
		return a
	}
	if c.IsFalse() {
		return b
	}
	if a == b {
		return a
	}
	if a.IsConst() && b.IsConst() && constEq(a, b) {
		return a
	}
	if a.Sort.K == SBool {
		if a.IsTrue() && b.IsFalse() {
			return c
		}
		if a.IsFalse() && b.IsTrue() {
			return Not(c)
		}
	}
	return mk("ite", a.Sort, c, a, b)
}

func constEq(a, b *T) bool {
	switch a.Sort.K {
	case SBool:
		return a.B == b.B
	case SBV:
		return a.BV == b.BV
	case SStr:
		return a.Str == b.Str
	case SInt:
		return a.Int.Cmp(b.Int) == 0
	}
	return false
}

const wsRe = `(re.* (re.union (str.to_re " ") (str.to_re "\u{9}") (str.to_re "\u{a}") (str.to_re "\u{b}") (str.to_re "\u{c}") (str.to_re "\u{d}")))`

type lenProf struct {
	n   int
	sym string
}

// lenProfile: total constant length plus the sorted multiset of symbolic pieces of a concatenation.
func lenProfile(t *T) lenProf {
	parts := []*T{t}
	if t.Op == "str.++" {
		parts = t.Args
	}
	n := 0
	var ids []string
	for _, p := range parts {
		switch {
		case p.IsConst():
			n += len(p.Str)
		case p.FixLen > 0:
			n += p.FixLen
		case p.Op == "var" || p.Op == "uf" || p.Op == "select":
			ids = append(ids, strconv.Itoa(p.id))
		default:
			return lenProf{sym: "?"}
		}
	}
	sort.Strings(ids)
	return lenProf{n: n, sym: strings.Join(ids, ",")}
}

// constPrefix returns the constant leading bytes of a string term.
func constPrefix(t *T) (string, bool) {
	if t.IsConst() {
		return t.Str, true // whole
	}
	if t.Op == "str.++" && t.Args[0].IsConst() {
		return t.Args[0].Str, false
	}
	return "", false
}

func Eq(a, b *T) *T {
	if a == b {
		return tTrue
	}
	if a.Sort != b.Sort {
		panic(fmt.Sprintf("Eq sort mismatch %s vs %s: %s / %s", a.Sort.SMT(), b.Sort.SMT(), a, b))
	}
	if a.IsConst() && b.IsConst() && a.Sort.K != SFP {
		return BoolConst(constEq(a, b))
	}
	if a.Sort.K == SBool {
		if a.IsTrue() {
			return b
		}
		if b.IsTrue() {
			return a
		}
		if a.IsFalse() {
			return Not(b)
		}
		if b.IsFalse() {
			return Not(a)
		}
	}
	if a.Sort.K == SStr {
		// strings.TrimSpace(s) == "" iff s consists of ASCII whitespace only
		if a.Op == "uf" && a.Name == "trimspace" && b.IsConst() && b.Str == "" {
			return InRe(a.Args[0], wsRe)
		}
		if b.Op == "uf" && b.Name == "trimspace" && a.IsConst() && a.Str == "" {
			return InRe(b.Args[0], wsRe)
		}
		// a concatenation with more constant bytes than the whole constant it is compared with cannot equal it
		for _, pr := range [][2]*T{{a, b}, {b, a}} {
			x, c := pr[0], pr[1]
			if c.IsConst() && x.Op == "str.++" {
				n := 0
				for _, p := range x.Args {
					if p.IsConst() {
						n += len(p.Str)
					} else if p.FixLen > 0 {
						n += p.FixLen
					}
				}
				if n > len(c.Str) {
					return tFalse
				}
			}
			// comparison of a conditional with a constant: distribute when both arms are decided
			if c.IsConst() && x.Op == "ite" {
				l, r := Eq(x.Args[1], c), Eq(x.Args[2], c)
				if l.IsConst() && r.IsConst() {
					return Ite(x.Args[0], l, r)
				}
			}
			// comparison of a conditional key with a key: distribute when both arms reduce to non-string conditions
			if x.Op == "ite" && c.Op == "str.++" {
				l, r := Eq(x.Args[1], c), Eq(x.Args[2], c)
				plain := func(t *T) bool { return t.Op == "=" && t.Args[0].Sort.K == SStr }
				if !plain(l) && !plain(r) {
					return Ite(x.Args[0], l, r)
				}
			}
		}
		// differing constant prefixes decide disequality syntactically
		pa, wa := constPrefix(a)
		pb, wb := constPrefix(b)
		if pa != "" && pb != "" {
			n := len(pa)
			if len(pb) < n {
				n = len(pb)
			}
			if pa[:n] != pb[:n] {
				return tFalse
			}
			if wa && len(pb) > len(pa) || wb && len(pa) > len(pb) {
				return tFalse
			}
		}
		// same symbolic pieces (as a multiset) but different constant length: lengths differ, so the strings differ
		if la, lb, ok := lenProfile(a), lenProfile(b), true; ok && la.sym == lb.sym && la.n != lb.n && la.sym != "?" {
			return tFalse
		}
	}
	if a.Sort.K == SStr && a.Op == "str.++" && b.Op == "str.++" {
		// keys that spell 64-bit words big-endian at the same positions: compare the words as bit-vectors
		if r, ok := wordEq(a, b); ok {
			return r
		}
	}
	if a.Sort.K == SBV {
		// (int2bv x) == const  ->  x == const when x is a length-like Int
		if ai, ok := intBacked(a); ok {
			if bi, ok := intBacked(b); ok {
				return Eq(ai, bi)
			}
		}
	}
	if a.Sort.K == SFP {
		return mk("fp.eq", BoolS, a, b)
	}
	return mk("=", BoolS, a, b)
}

// ---------- Int-backed bit-vectors (lengths) ----------
// A BV64 term of the form (int2bv n) where n is a non-negative Int known to be < 2^63 (string lengths).
func Int2BV(n *T, w int) *T {
	if n.IsConst() {
		return BVConst(new(big.Int).And(n.Int, new(big.Int).SetUint64(mask(w))).Uint64(), w)
	}
	return mkN(fmt.Sprintf("(_ int2bv %d)", w), "int2bv", BVS(w), n)
}
func intBacked(t *T) (*T, bool) {
	if t.Sort.K != SBV {
		return nil, false
	}
	if t.Name == "int2bv" && t.Op != "var" && t.Op != "uf" {
		return t.Args[0], true
	}
	if t.IsConst() && t.BV < 1<<62 {
		return IntConst(int64(t.BV)), true
	}
	return nil, false
}
func isIntBackedNonConst(t *T) bool {
	return t.Name == "int2bv" && t.Op != "var" && t.Op != "uf"
}

// BV2Int: unsigned value of a BV as Int.
func BV2Int(t *T) *T {
	if t.IsConst() {
		return IntConstBig(new(big.Int).SetUint64(t.BV))
	}
	if n, ok := intBacked(t); ok {
		return n
	}
	return mk("bv2nat", IntS, t)
}

// ---------- Int arithmetic ----------
// linForm decomposes an Int term built from +, - and constants into constant + sum of coefficient*atom.
type linForm struct {
	c    int64
	coef map[*T]int64
}

func lin(t *T) (linForm, bool) {
	f := linForm{coef: map[*T]int64{}}
	var walk func(t *T, sign int64) bool
	walk = func(t *T, sign int64) bool {
		switch {
		case t.IsConst():
			if !t.Int.IsInt64() {
				return false
			}
			f.c += sign * t.Int.Int64()
		case t.Op == "+":
			for _, a := range t.Args {
				if !walk(a, sign) {
					return false
				}
			}
		case t.Op == "-" && len(t.Args) == 2:
			return walk(t.Args[0], sign) && walk(t.Args[1], -sign)
		default:
			f.coef[t] += sign
		}
		return true
	}
	if t.Sort.K != SInt || !walk(t, 1) {
		return f, false
	}
	return f, true
}

// linDiff returns a-b when it is a constant.
func linDiff(a, b *T) (int64, bool) {
	fa, ok1 := lin(a)
	fb, ok2 := lin(b)
	if !ok1 || !ok2 {
		return 0, false
	}
	for k, v := range fb.coef {
		fa.coef[k] -= v
	}
	for _, v := range fa.coef {
		if v != 0 {
			return 0, false
		}
	}
	return fa.c - fb.c, true
}

func IntAdd(a, b *T) *T {
	if a.IsConst() && b.IsConst() {
		return IntConstBig(new(big.Int).Add(a.Int, b.Int))
	}
	if a.IsConst() && a.Int.Sign() == 0 {
		return b
	}
	if b.IsConst() && b.Int.Sign() == 0 {
		return a
	}
	return mk("+", IntS, a, b)
}
func IntSub(a, b *T) *T {
	if a.IsConst() && b.IsConst() {
		return IntConstBig(new(big.Int).Sub(a.Int, b.Int))
	}
	if b.IsConst() && b.Int.Sign() == 0 {
		return a
	}
	return mk("-", IntS, a, b)
}
func IntMul(a, b *T) *T {
	if a.IsConst() && b.IsConst() {
		return IntConstBig(new(big.Int).Mul(a.Int, b.Int))
	}
	return mk("*", IntS, a, b)
}
func IntNeg(a *T) *T {
	if a.IsConst() {
		return IntConstBig(new(big.Int).Neg(a.Int))
	}
	return mk("-", IntS, a)
}
func IntCmp(op string, a, b *T) *T {
	if a.IsConst() && b.IsConst() {
		c := a.Int.Cmp(b.Int)
		switch op {
		case "<":
			return BoolConst(c < 0)
		case "<=":
			return BoolConst(c <= 0)
		case ">":
			return BoolConst(c > 0)
		case ">=":
			return BoolConst(c >= 0)
		}
	}
	// str.len x >= 0 etc.
	if a.Op == "str.len" && b.IsConst() {
		if (op == ">=" && b.Int.Sign() <= 0) || (op == ">" && b.Int.Sign() < 0) {
			return tTrue
		}
		if (op == "<" && b.Int.Sign() <= 0) || (op == "<=" && b.Int.Sign() < 0) {
			return tFalse
		}
		if op == "<=" && b.Int.Sign() == 0 || op == "<" && b.Int.Cmp(big.NewInt(1)) == 0 {
			return Eq(a.Args[0], StrConst(""))
		}
		if op == ">" && b.Int.Sign() == 0 || op == ">=" && b.Int.Cmp(big.NewInt(1)) == 0 {
			return Not(Eq(a.Args[0], StrConst("")))
		}
	}
	return mk(op, BoolS, a, b)
}

// ---------- strings ----------
func StrLen(s *T) *T {
	if s.IsConst() {
		return IntConst(int64(len(s.Str)))
	}
	if s.Op == "str.++" {
		r := IntConst(0)
		for _, a := range s.Args {
			r = IntAdd(r, StrLen(a))
		}
		return r
	}
	if s.FixLen > 0 {
		return IntConst(int64(s.FixLen))
	}
	if s.Op == "str.from_code" && s.Args[0].Op == "bv2nat" && s.Args[0].Args[0].Sort.W <= 8 {
		return IntConst(1) // one byte
	}
	return mk("str.len", IntS, s)
}

func Concat(parts ...*T) *T {
	var flat []*T
	for _, p := range parts {
		if p.Op == "str.++" {
			flat = append(flat, p.Args...)
		} else {
			flat = append(flat, p)
		}
	}
	var out []*T
	for _, p := range flat {
		if p.IsConst() && p.Str == "" {
			continue
		}
		if n := len(out); n > 0 && out[n-1].IsConst() && p.IsConst() {
			out[n-1] = StrConst(out[n-1].Str + p.Str)
			continue
		}
		out = append(out, p)
	}
	out = mergeSubstrs(out)
	switch len(out) {
	case 0:
		return StrConst("")
	case 1:
		return out[0]
	}
	return mk("str.++", StrS, out...)
}

// mergeSubstrs fuses adjacent constant-offset substrings of the same base: substr(h,i,a) ++ substr(h,i+a,b) = substr(h,i,a+b).
func mergeSubstrs(parts []*T) []*T {
	isSub := func(t *T) (*T, int64, int64, bool) {
		if t.Op == "str.substr" && t.Args[1].IsConst() && t.Args[2].IsConst() {
			return t.Args[0], t.Args[1].Int.Int64(), t.Args[2].Int.Int64(), true
		}
		return nil, 0, 0, false
	}
	var out []*T
	for _, p := range parts {
		if n := len(out); n > 0 {
			if b1, o1, l1, ok1 := isSub(out[n-1]); ok1 {
				if b2, o2, l2, ok2 := isSub(p); ok2 && b1 == b2 && o1+l1 == o2 {
					out[n-1] = StrSubstr(b1, IntConst(o1), IntConst(l1+l2))
					continue
				}
			}
		}
		out = append(out, p)
	}
	return out
}

func StrContains(s, sub *T) *T {
	if s.IsConst() && sub.IsConst() {
		return BoolConst(strings.Contains(s.Str, sub.Str))
	}
	if sub.IsConst() && sub.Str == "" {
		return tTrue
	}
	return mk("str.contains", BoolS, s, sub)
}
func StrPrefixOf(pre, s *T) *T {
	if s.IsConst() && pre.IsConst() {
		return BoolConst(strings.HasPrefix(s.Str, pre.Str))
	}
	if pre.IsConst() && pre.Str == "" {
		return tTrue
	}
	if pre.IsConst() && s.Op == "str.++" && s.Args[0].IsConst() {
		a := s.Args[0].Str
		if len(a) >= len(pre.Str) {
			return BoolConst(strings.HasPrefix(a, pre.Str))
		}
		if !strings.HasPrefix(pre.Str, a) {
			return tFalse
		}
	}
	if r, ok := prefixPieces(pre, s); ok {
		return r
	}
	return mk("str.prefixof", BoolS, pre, s)
}

// prefixPieces decides prefixof piece by piece for concatenations of constants and decimal numerals: identical pieces
// are skipped, constants are compared bytewise, and two numerals that are each followed by a non-digit are equal or not.
func prefixPieces(pre, s *T) (*T, bool) {
	pp := func(t *T) []*T {
		if t.Op == "str.++" {
			return t.Args
		}
		return []*T{t}
	}
	a, b := pp(pre), pp(s)
	cond := tTrue
	nonDigitNext := func(ps []*T) bool {
		return len(ps) > 1 && ps[1].IsConst() && ps[1].Str != "" && (ps[1].Str[0] < '0' || ps[1].Str[0] > '9')
	}
	for len(a) > 0 {
		if len(b) == 0 {
			return nil, false
		}
		x, y := a[0], b[0]
		switch {
		case x == y:
			a, b = a[1:], b[1:]
		case x.IsConst() && y.IsConst():
			n := min(len(x.Str), len(y.Str))
			if x.Str[:n] != y.Str[:n] {
				return tFalse, true
			}
			a, b = a[1:], b[1:]
			if len(x.Str) > n {
				a = append([]*T{StrConst(x.Str[n:])}, a...)
			}
			if len(y.Str) > n {
				b = append([]*T{StrConst(y.Str[n:])}, b...)
			}
		case x.Op == "uf" && x.Name == "dec" && y.Op == "uf" && y.Name == "dec" && nonDigitNext(a) && nonDigitNext(b):
			cond = And(cond, Eq(x.Args[0], y.Args[0]))
			a, b = a[1:], b[1:]
		case x.Op == "uf" && x.Name == "dec" && y.Op == "uf" && y.Name == "dec" && len(a) == 1:
			// the prefix ends inside a numeral: what remains is a prefix test between two numerals
			return And(cond, mk("str.prefixof", BoolS, x, y)), true
		default:
			return nil, false
		}
	}
	return cond, true
}
func StrSuffixOf(suf, s *T) *T {
	if s.IsConst() && suf.IsConst() {
		return BoolConst(strings.HasSuffix(s.Str, suf.Str))
	}
	if suf.IsConst() && suf.Str == "" {
		return tTrue
	}
	return mk("str.suffixof", BoolS, suf, s)
}
func StrSubstr(s, off, n *T) *T {
	if s.IsConst() && off.IsConst() && n.IsConst() {
		o, l := int(off.Int.Int64()), int(n.Int.Int64())
		if o < 0 || o > len(s.Str) || l <= 0 {
			return StrConst("")
		}
		if o+l > len(s.Str) {
			l = len(s.Str) - o
		}
		return StrConst(s.Str[o : o+l])
	}
	// substr of a concat with constant prefix
	if off.IsConst() && off.Int.Sign() == 0 && n.Op == "str.len" && n.Args[0] == s {
		return s
	}
	if off.IsConst() && off.Int.Sign() == 0 && n.IsConst() && s.FixLen > 0 && n.Int.Int64() == int64(s.FixLen) {
		return s
	}
	if s.Op == "str.++" && off.IsConst() && n.IsConst() && s.Args[0].IsConst() {
		o, l := int(off.Int.Int64()), int(n.Int.Int64())
		if o >= 0 && l >= 0 && o+l <= len(s.Args[0].Str) {
			return StrConst(s.Args[0].Str[o : o+l])
		}
	}
	// s[off:] where off is, up to a constant that falls inside a constant piece, the length of the first k pieces
	if s.Op == "str.++" && !off.IsConst() {
		if d, ok := linDiff(IntAdd(off, n), StrLen(s)); ok && d == 0 {
			for k := 0; k < len(s.Args); k++ {
				c, ok := linDiff(off, StrLen(Concat(s.Args[:k]...)))
				if !ok || c < 0 {
					continue
				}
				if c == 0 {
					return Concat(s.Args[k:]...)
				}
				if p := s.Args[k]; p.IsConst() && int(c) <= len(p.Str) {
					return Concat(append([]*T{StrConst(p.Str[c:])}, s.Args[k+1:]...)...)
				}
			}
		}
	}
	// substr of a concatenation whose pieces all have known lengths, at constant positions: slice the pieces
	if s.Op == "str.++" && off.IsConst() {
		total := StrLen(s)
		if total.IsConst() {
			nn := n
			if !nn.IsConst() {
				// n = len(s) - off (slicing s[off:])
				if d := IntSub(total, off); n == IntSub(StrLen(s), off) || n == d {
					nn = d
				}
			}
			if nn.IsConst() {
				o, l := int(off.Int.Int64()), int(nn.Int.Int64())
				tot := int(total.Int.Int64())
				if o >= 0 && l >= 0 && o <= tot {
					if o+l > tot {
						l = tot - o
					}
					var out []*T
					pos := 0
					ok := true
					for _, p := range s.Args {
						pl := int(StrLen(p).Int.Int64())
						lo, hi := max(o, pos), min(o+l, pos+pl)
						if lo < hi {
							switch {
							case lo == pos && hi == pos+pl:
								out = append(out, p)
							case p.IsConst():
								out = append(out, StrConst(p.Str[lo-pos:hi-pos]))
							default:
								ok = false
							}
						}
						pos += pl
					}
					if ok {
						return Concat(out...)
					}
				}
			}
		}
	}
	return mk("str.substr", StrS, s, off, n)
}
func StrIndexOf(s, sub, from *T) *T {
	if s.IsConst() && sub.IsConst() && from.IsConst() {
		f := int(from.Int.Int64())
		if f < 0 || f > len(s.Str) {
			return IntConst(-1)
		}
		i := strings.Index(s.Str[f:], sub.Str)
		if i < 0 {
			return IntConst(-1)
		}
		return IntConst(int64(i + f))
	}
	return mk("str.indexof", IntS, s, sub, from)
}
func StrAt(s, i *T) *T { return StrSubstr(s, i, IntConst(1)) }
func StrLt(a, b *T) *T {
	if a.IsConst() && b.IsConst() {
		return BoolConst(a.Str < b.Str)
	}
	return mk("str.<", BoolS, a, b)
}

// StrToCode: code of a 1-char string as BV8 (via Int).
func StrCodeBV8(ch *T) *T {
	if ch.IsConst() && len(ch.Str) == 1 {
		return BVConst(uint64(ch.Str[0]), 8)
	}
	return Int2BVraw(mk("str.to_code", IntS, ch), 8)
}
func Int2BVraw(n *T, w int) *T {
	if n.IsConst() {
		return Int2BV(n, w)
	}
	return mk(fmt.Sprintf("(_ int2bv %d)", w), BVS(w), n)
}

// CodeStr: 1-char string from a BV8.
func CodeStr(b *T) *T {
	if b.IsConst() {
		return StrConst(string([]byte{byte(b.BV)}))
	}
	if b.Op == "(_ int2bv 8)" && b.Args[0].Op == "str.to_code" {
		return b.Args[0].Args[0] // assumes arg is a 1-char string
	}
	return mk("str.from_code", StrS, mk("bv2nat", IntS, b))
}

func InRe(s *T, re string) *T { return mkN("str.in_re", re, BoolS, s) }

// ---------- bit-vectors ----------
func bvFold(op string, a, b uint64, w int, signed bool) (uint64, bool, bool) {
	sh := uint(64 - w)
	sa, sb := int64(a<<sh)>>sh, int64(b<<sh)>>sh
	switch op {
	case "bvadd":
		return a + b, false, true
	case "bvsub":
		return a - b, false, true
	case "bvmul":
		return a * b, false, true
	case "bvand":
		return a & b, false, true
	case "bvor":
		return a | b, false, true
	case "bvxor":
		return a ^ b, false, true
	case "bvudiv":
		if b == 0 {
			return mask(w), false, true
		}
		return a / b, false, true
	case "bvurem":
		if b == 0 {
			return a, false, true
		}
		return a % b, false, true
	case "bvsdiv":
		if sb == 0 {
			return 0, false, false
		}
		return uint64(sa / sb), false, true
	case "bvsrem":
		if sb == 0 {
			return 0, false, false
		}
		return uint64(sa % sb), false, true
	case "bvshl":
		if b >= uint64(w) {
			return 0, false, true
		}
		return a << b, false, true
	case "bvlshr":
		if b >= uint64(w) {
			return 0, false, true
		}
		return a >> b, false, true
	case "bvashr":
		if b >= uint64(w) {
			b = uint64(w - 1)
		}
		return uint64(sa >> b), false, true
	case "bvult":
		return 0, a < b, true
	case "bvule":
		return 0, a <= b, true
	case "bvugt":
		return 0, a > b, true
	case "bvuge":
		return 0, a >= b, true
	case "bvslt":
		return 0, sa < sb, true
	case "bvsle":
		return 0, sa <= sb, true
	case "bvsgt":
		return 0, sa > sb, true
	case "bvsge":
		return 0, sa >= sb, true
	}
	return 0, false, false
}

func BVBin(op string, a, b *T) *T {
	w := a.Sort.W
	if a.Sort != b.Sort {
		panic(fmt.Sprintf("BVBin %s sort mismatch: %s vs %s", op, a, b))
	}
	if a.IsConst() && b.IsConst() {
		if v, _, ok := bvFold(op, a.BV, b.BV, w, false); ok {
			return BVConst(v, w)
		}
	}
	switch op {
	case "bvadd":
		if a.IsConst() && a.BV == 0 {
			return b
		}
		if b.IsConst() && b.BV == 0 {
			return a
		}
		if ai, ok := intBacked(a); ok && (isIntBackedNonConst(a) || isIntBackedNonConst(b)) {
			if bi, ok := intBacked(b); ok {
				return Int2BV(IntAdd(ai, bi), w)
			}
		}
	case "bvsub":
		if b.IsConst() && b.BV == 0 {
			return a
		}
	case "bvmul":
		if a.IsConst() && a.BV == 1 {
			return b
		}
		if b.IsConst() && b.BV == 1 {
			return a
		}
	}
	return mk(op, a.Sort, a, b)
}

func BVCmp(op string, a, b *T) *T {
	if a.Sort != b.Sort {
		panic(fmt.Sprintf("BVCmp %s sort mismatch: %s vs %s", op, a, b))
	}
	if a.IsConst() && b.IsConst() {
		if _, r, ok := bvFold(op, a.BV, b.BV, a.Sort.W, false); ok {
			return BoolConst(r)
		}
	}
	// length comparisons stay in Int (lengths are in [0, 2^62))
	if isIntBackedNonConst(a) || isIntBackedNonConst(b) {
		ai, ok1 := intBacked(a)
		bi, ok2 := intBacked(b)
		if ok1 && ok2 {
			m := map[string]string{"bvult": "<", "bvule": "<=", "bvugt": ">", "bvuge": ">=", "bvslt": "<", "bvsle": "<=", "bvsgt": ">", "bvsge": ">="}
			return IntCmp(m[op], ai, bi)
		}
		// comparison against a constant that is negative (signed) or huge
		if ok1 && b.IsConst() {
			switch op {
			case "bvslt", "bvsle":
				return tFalse // len < negative
			case "bvsgt", "bvsge":
				return tTrue
			case "bvult", "bvule":
				return tTrue // len < huge
			case "bvugt", "bvuge":
				return tFalse
			}
		}
	}
	return mk(op, BoolS, a, b)
}

func BVNeg(a *T) *T {
	if a.IsConst() {
		return BVConst(-a.BV, a.Sort.W)
	}
	return mk("bvneg", a.Sort, a)
}
func BVNot(a *T) *T {
	if a.IsConst() {
		return BVConst(^a.BV, a.Sort.W)
	}
	return mk("bvnot", a.Sort, a)
}
func BVExtract(hi, lo int, a *T) *T {
	if a.IsConst() {
		return BVConst(a.BV>>uint(lo), hi-lo+1)
	}
	if lo == 0 && hi == a.Sort.W-1 {
		return a
	}
	if n, ok := intBacked(a); ok && lo == 0 && isIntBackedNonConst(a) {
		return Int2BVraw(n, hi+1)
	}
	return mk(fmt.Sprintf("(_ extract %d %d)", hi, lo), BVS(hi-lo+1), a)
}
func BVZeroExt(a *T, to int) *T {
	if a.Sort.W == to {
		return a
	}
	if a.IsConst() {
		return BVConst(a.BV, to)
	}
	return mk(fmt.Sprintf("(_ zero_extend %d)", to-a.Sort.W), BVS(to), a)
}
func BVSignExt(a *T, to int) *T {
	if a.Sort.W == to {
		return a
	}
	if a.IsConst() {
		return BVConst(uint64(a.SignedBV()), to)
	}
	return mk(fmt.Sprintf("(_ sign_extend %d)", to-a.Sort.W), BVS(to), a)
}
func BVConcat(a, b *T) *T {
	if a.IsConst() && b.IsConst() && a.Sort.W+b.Sort.W <= 64 {
		return BVConst(a.BV<<uint(b.Sort.W)|b.BV, a.Sort.W+b.Sort.W)
	}
	return mk("concat", BVS(a.Sort.W+b.Sort.W), a, b)
}

// ---------- arrays ----------
func Select(arr, k *T) *T {
	// read-over-write with syntactic key comparison
	for a := arr; a.Op == "store"; a = a.Args[0] {
		e := Eq(a.Args[1], k)
		if e.IsTrue() {
			return a.Args[2]
		}
		if !e.IsFalse() {
			if !(e.Op == "=" && e.Args[0].Sort.K == SStr) {
				// the key comparison reduced to a non-string condition (big-endian words): keep it out of the array theory
				return Ite(e, a.Args[2], Select(a.Args[0], k))
			}
			return mk("select", StrS, arr, k)
		}
		arr = a.Args[0]
	}
	return mk("select", StrS, arr, k)
}
func Store(arr, k, v *T) *T { return mk("store", ArrS, arr, k, v) }

// UF application
func UF(name string, sort Sort, args ...*T) *T { return mkN("uf", name, sort, args...) }
