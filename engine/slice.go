// Independence slicing for feasibility queries: only the conjuncts of the path condition that are
// (transitively) connected to the branch condition through shared variables / store-read classes are sent.
// Dropping conjuncts can only make an infeasible branch look feasible (the path is then explored and its
// obligations, which always use the full path condition, are vacuously discharged); it never prunes a feasible branch.
package main

import "strings"

func keyClass(k *T) string {
	p, _ := constPrefix(k)
	if i := strings.IndexByte(p, '/'); i >= 0 {
		return p[:i+1]
	}
	return ""
}

func (e *Engine) symsOf(t *T) map[string]bool {
	if s, ok := e.symCache[t]; ok {
		return s
	}
	out := map[string]bool{}
	seen := map[*T]bool{}
	var walk func(x *T)
	walk = func(x *T) {
		if seen[x] {
			return
		}
		seen[x] = true
		switch x.Op {
		case "var":
			if x.Sort.K == SArr {
				out["arr:"+x.Name] = true
			} else {
				out["v:"+x.Name] = true
			}
			return
		case "select":
			if x.Args[0].Op == "var" {
				if c := keyClass(x.Args[1]); c != "" {
					out["sel:"+x.Args[0].Name+":"+c] = true
					walk(x.Args[1])
					return
				}
			}
		}
		for _, a := range x.Args {
			walk(a)
		}
	}
	walk(t)
	e.symCache[t] = out
	return out
}

func connected(a, b map[string]bool) bool {
	if len(a) > len(b) {
		a, b = b, a
	}
	for s := range a {
		if b[s] {
			return true
		}
		// a whole-array use is connected to every read class of that array
		if strings.HasPrefix(s, "arr:") {
			pre := "sel:" + s[4:] + ":"
			for t := range b {
				if strings.HasPrefix(t, pre) {
					return true
				}
			}
		} else if strings.HasPrefix(s, "sel:") {
			rest := s[4:]
			if i := strings.IndexByte(rest, ':'); i >= 0 && b["arr:"+rest[:i]] {
				return true
			}
		}
	}
	return false
}

// slice returns the conjuncts of axioms+pc connected to cond.
func (e *Engine) slice(cond *T) []*T {
	all := make([]*T, 0, len(e.axioms)+len(e.pc))
	all = append(all, e.axioms...)
	all = append(all, e.pc...)
	cur := map[string]bool{}
	for s := range e.symsOf(cond) {
		cur[s] = true
	}
	used := make([]bool, len(all))
	var out []*T
	for changed := true; changed; {
		changed = false
		for i, c := range all {
			if used[i] {
				continue
			}
			sy := e.symsOf(c)
			if len(sy) == 0 {
				continue
			}
			if connected(sy, cur) {
				used[i] = true
				out = append(out, c)
				for s := range sy {
					cur[s] = true
				}
				changed = true
			}
		}
	}
	return out
}
