package main

import "strings"

const bech32Charset = "qpzry9x8gf2tvdw0s3jn54khce6mua7l"

func bech32Polymod(values []byte) uint32 {
	gen := []uint32{0x3b6a57b2, 0x26508e6d, 0x1ea119fa, 0x3d4233dd, 0x2a1462b3}
	chk := uint32(1)
	for _, v := range values {
		b := chk >> 25
		chk = (chk&0x1ffffff)<<5 ^ uint32(v)
		for i := 0; i < 5; i++ {
			if (b>>uint(i))&1 == 1 {
				chk ^= gen[i]
			}
		}
	}
	return chk
}

// bech32Decode decodes a constant bech32 string (BIP-173) into its payload bytes.
func bech32Decode(s string) ([]byte, bool) {
	if len(s) < 8 || len(s) > 90 || strings.ToLower(s) != s {
		return nil, false
	}
	pos := strings.LastIndexByte(s, '1')
	if pos < 1 || pos+7 > len(s) {
		return nil, false
	}
	hrp, data := s[:pos], s[pos+1:]
	var vals []byte
	for i := 0; i < len(hrp); i++ {
		vals = append(vals, hrp[i]>>5)
	}
	vals = append(vals, 0)
	for i := 0; i < len(hrp); i++ {
		vals = append(vals, hrp[i]&31)
	}
	var d5 []byte
	for i := 0; i < len(data); i++ {
		j := strings.IndexByte(bech32Charset, data[i])
		if j < 0 {
			return nil, false
		}
		d5 = append(d5, byte(j))
	}
	if bech32Polymod(append(vals, d5...)) != 1 {
		return nil, false
	}
	d5 = d5[:len(d5)-6]
	// convert 5-bit groups to bytes
	var out []byte
	acc, bits := uint32(0), uint(0)
	for _, v := range d5 {
		acc = acc<<5 | uint32(v)
		bits += 5
		for bits >= 8 {
			bits -= 8
			out = append(out, byte(acc>>bits))
		}
	}
	if bits >= 5 || (acc<<(8-bits))&0xff != 0 {
		return nil, false
	}
	if hrp != "cosmos" {
		return nil, false
	}
	return out, true
}
