// Concretisation: a solver model may use the freedom of uninterpreted stand-ins (dec(0) = "7").
// Every stand-in that has a real counterpart is evaluated with the real function on the model's
// argument values; disagreements are pinned as (true) facts UF(c) = real(c) and the query is re-solved.
// Ends with a model consistent with the real functions, or with unsat (the first model was an artefact).
package main

import (
	"crypto/sha256"
	"encoding/hex"
	"fmt"
	"math/big"
	"regexp"
	"strconv"
	"strings"
)

var chanRe = regexp.MustCompile(`^channel-[0-9]{1,20}$`)
var clientRe = regexp.MustCompile(`^\w+([\w-]+\w)?-[0-9]{1,20}$`)
var idRe = regexp.MustCompile(`^[a-zA-Z0-9\.\_\+\-\#\[\]\<\>]+$`)

var realUFs = map[string]bool{"dec": true, "undec": true, "pu_ok": true, "sha256": true, "hexenc": true, "hexencU": true, "hexdec": true, "hex_ok": true, "tolower": true, "toupper": true, "trimspace": true, "be64": true, "unbe64": true, "intenc": true, "intdec": true}

func collectUFApps(ts []*T, seen map[*T]bool, out *[]*T) {
	for _, t := range ts {
		if seen[t] {
			continue
		}
		seen[t] = true
		if t.Op == "uf" && (realUFs[t.Name] || strings.HasPrefix(t.Name, "idvalid_") || t.Name == "chanid_ok" || t.Name == "clientid_ok") && len(t.Args) == 1 {
			*out = append(*out, t)
		}
		collectUFApps(t.Args, seen, out)
	}
}

func mvToTerm(v ModelValue, s Sort) (*T, bool) {
	switch s.K {
	case SBV:
		if v.Kind == "bv" {
			return BVConst(v.U, s.W), true
		}
	case SStr:
		if v.Kind == "str" {
			return StrConst(v.S), true
		}
	case SBool:
		if v.Kind == "bool" {
			return BoolConst(v.B), true
		}
	case SInt:
		if v.Kind == "int" {
			return IntConstBig(v.I), true
		}
	}
	return nil, false
}

// realValue computes the real function behind a stand-in on a constant argument.
func realValue(name string, arg *T) (*T, bool) {
	if strings.HasPrefix(name, "idvalid_") {
		var lo, hi int
		fmt.Sscanf(name, "idvalid_%d_%d", &lo, &hi)
		s := arg.Str
		ok := strings.TrimSpace(s) != "" && !strings.Contains(s, "/") && len(s) >= lo && len(s) <= hi && idRe.MatchString(s)
		return BoolConst(ok), true
	}
	switch name {
	case "chanid_ok":
		if !chanRe.MatchString(arg.Str) {
			return tFalse, true
		}
		_, err := strconv.ParseUint(strings.TrimPrefix(arg.Str, "channel-"), 10, 64)
		return BoolConst(err == nil), true
	case "clientid_ok":
		if arg.Str == "09-localhost" {
			return tTrue, true
		}
		if !clientRe.MatchString(arg.Str) {
			return tFalse, true
		}
		parts := strings.Split(arg.Str, "-")
		if strings.TrimSpace(strings.Join(parts[:len(parts)-1], "-")) == "" {
			return tFalse, true
		}
		_, err := strconv.ParseUint(parts[len(parts)-1], 10, 64)
		return BoolConst(err == nil), true
	case "dec":
		return StrConst(strconv.FormatUint(arg.BV, 10)), true
	case "undec":
		v, err := strconv.ParseUint(arg.Str, 10, 64)
		if err != nil {
			return nil, false // value is unconstrained when parsing fails
		}
		return BVConst(v, 64), true
	case "pu_ok":
		_, err := strconv.ParseUint(arg.Str, 10, 64)
		return BoolConst(err == nil), true
	case "sha256":
		h := sha256.Sum256([]byte(arg.Str))
		return StrConst(string(h[:])), true
	case "hexenc":
		return StrConst(hex.EncodeToString([]byte(arg.Str))), true
	case "hexencU":
		return StrConst(strings.ToUpper(hex.EncodeToString([]byte(arg.Str)))), true
	case "hexdec":
		b, err := hex.DecodeString(arg.Str)
		if err != nil {
			return nil, false
		}
		return StrConst(string(b)), true
	case "hex_ok":
		_, err := hex.DecodeString(arg.Str)
		return BoolConst(err == nil), true
	case "be64":
		var b [8]byte
		for i := 0; i < 8; i++ {
			b[i] = byte(arg.BV >> uint(8*(7-i)))
		}
		return StrConst(string(b[:])), true
	case "unbe64":
		if len(arg.Str) != 8 {
			return nil, false
		}
		var v uint64
		for i := 0; i < 8; i++ {
			v = v<<8 | uint64(arg.Str[i])
		}
		return BVConst(v, 64), true
	case "intenc":
		return StrConst(arg.Int.String()), true
	case "intdec":
		v, ok := new(big.Int).SetString(arg.Str, 10)
		if !ok || v.String() != arg.Str {
			return nil, false
		}
		return IntConstBig(v), true
	case "tolower":
		return StrConst(strings.ToLower(arg.Str)), true
	case "toupper":
		return StrConst(strings.ToUpper(arg.Str)), true
	case "trimspace":
		return StrConst(strings.TrimSpace(arg.Str)), true
	}
	return nil, false
}

// appMismatches compares every stand-in application in the model with the real function.
func appMismatches(apps []*T, kvs []struct {
	Key string
	Val ModelValue
}, off int, pinned map[string]bool) (pins []*T, fixes []*T, bad int) {
	for i, a := range apps {
		j := off + 2*i
		if j+1 >= len(kvs) {
			break
		}
		argT, ok1 := mvToTerm(kvs[j].Val, a.Args[0].Sort)
		appT, ok2 := mvToTerm(kvs[j+1].Val, a.Sort)
		if !ok1 || !ok2 {
			continue
		}
		real, ok := realValue(a.Name, argT)
		if !ok || constEq(real, appT) {
			continue
		}
		bad++
		key := a.Name + ":" + argT.String()
		if !pinned[key] {
			pinned[key] = true
			pin := UF(a.Name, a.Sort, argT)
			pin.FixLen = a.FixLen
			pins = append(pins, Eq(pin, real))
		}
		fixes = append(fixes, Eq(a.Args[0], argT))
	}
	return
}

// solveConcrete returns a model that agrees with the real functions, or unsat/unknown.
// Phase A keeps the input variables at the first model's values and only repairs the stand-ins level by level
// (nested hashes need one round per level; every round is nearly ground, hence fast). If that fails, phase B
// re-solves with the accumulated pins and free variables.
func (e *Engine) solveConcrete(extra []*T, timeoutMs int) (QueryResult, []string, int) {
	var apps []*T
	seen := map[*T]bool{}
	collectUFApps(e.axioms, seen, &apps)
	collectUFApps(e.pc, seen, &apps)
	collectUFApps(extra, seen, &apps)
	base := e.world.modelTerms()
	values := append([]*T{}, base...)
	for _, a := range apps {
		values = append(values, a.Args[0], a)
	}
	r, names, _ := e.solve(extra, true, timeoutMs, values)
	if r.Res != "sat" || len(apps) == 0 {
		return r, names, 0
	}
	pinned := map[string]bool{}
	var pins []*T
	rounds := 0
	kvs := parseModel(r.Model)
	newPins, _, bad := appMismatches(apps, kvs, len(names)+len(base), pinned)
	if bad == 0 {
		return r, names, 0
	}
	pins = append(pins, newPins...)
	// phase A: fix the scalar input variables
	var fixVars []*T
	d := &decls{vars: map[string]Sort{}, ufs: map[string]string{}, seen: map[*T]bool{}}
	for _, t := range e.axioms {
		d.walk(t)
	}
	for _, t := range e.pc {
		d.walk(t)
	}
	for _, t := range extra {
		d.walk(t)
	}
	for i, n := range names {
		if i >= len(kvs) {
			break
		}
		srt := d.vars[n]
		if srt.K == SArr {
			continue
		}
		if c, ok := mvToTerm(kvs[i].Val, srt); ok {
			fixVars = append(fixVars, Eq(Var(n, srt), c))
		}
	}
	for rounds < 12 {
		rounds++
		as := append(append(append([]*T{}, extra...), pins...), fixVars...)
		r2, names2, _ := e.solve(as, true, timeoutMs, values)
		if r2.Res != "sat" {
			break
		}
		kv2 := parseModel(r2.Model)
		np, _, bad2 := appMismatches(apps, kv2, len(names2)+len(base), pinned)
		if bad2 == 0 {
			return r2, names2, rounds
		}
		if len(np) == 0 {
			break
		}
		pins = append(pins, np...)
	}
	// phase B: free variables, accumulated pins
	for rounds < 24 {
		rounds++
		r3, names3, _ := e.solve(append(append([]*T{}, extra...), pins...), true, timeoutMs, values)
		if r3.Res != "sat" {
			return r3, names3, rounds
		}
		kv3 := parseModel(r3.Model)
		np, fixes, bad3 := appMismatches(apps, kv3, len(names3)+len(base), pinned)
		if bad3 == 0 {
			return r3, names3, rounds
		}
		pins = append(pins, np...)
		r4, names4, _ := e.solve(append(append(append([]*T{}, extra...), pins...), fixes...), true, timeoutMs, values)
		if r4.Res == "sat" {
			kv4 := parseModel(r4.Model)
			if _, _, bad4 := appMismatches(apps, kv4, len(names4)+len(base), pinned); bad4 == 0 {
				return r4, names4, rounds
			}
		}
		if len(np) == 0 {
			break
		}
	}
	r.Res = "unknown"
	return r, names, rounds
}

var _ = fmt.Sprintf
