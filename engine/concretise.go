// Concretisation: a solver model may use the freedom of uninterpreted stand-ins (dec(0) = "7").
// Every stand-in that has a real counterpart is evaluated with the real function on the model's
// argument values; disagreements are pinned as (true) facts UF(c) = real(c) and the query is re-solved.
// Ends with a model consistent with the real functions, or with unsat (the first model was an artefact).
package main

import (
	"crypto/sha256"
	"encoding/hex"
	"fmt"
	"strconv"
	"strings"
)

var realUFs = map[string]bool{"dec": true, "undec": true, "pu_ok": true, "sha256": true, "hexenc": true, "hexencU": true, "hexdec": true, "hex_ok": true, "tolower": true, "toupper": true, "trimspace": true, "be64": true, "unbe64": true}

func collectUFApps(ts []*T, seen map[*T]bool, out *[]*T) {
	for _, t := range ts {
		if seen[t] {
			continue
		}
		seen[t] = true
		if t.Op == "uf" && realUFs[t.Name] && len(t.Args) == 1 {
			*out = append(*out, t)
		}
		collectUFApps(t.Args, seen, out)
	}
}

func mvToTerm(v ModelValue, s Sort) (*T, bool) {
	switch s.K {
	case SBV:
		if v.Kind == "bv" {
			return BVConst(v.U, s.W), true
		}
	case SStr:
		if v.Kind == "str" {
			return StrConst(v.S), true
		}
	case SBool:
		if v.Kind == "bool" {
			return BoolConst(v.B), true
		}
	case SInt:
		if v.Kind == "int" {
			return IntConstBig(v.I), true
		}
	}
	return nil, false
}

// realValue computes the real function behind a stand-in on a constant argument.
func realValue(name string, arg *T) (*T, bool) {
	switch name {
	case "dec":
		return StrConst(strconv.FormatUint(arg.BV, 10)), true
	case "undec":
		v, err := strconv.ParseUint(arg.Str, 10, 64)
		if err != nil {
			return nil, false // value is unconstrained when parsing fails
		}
		return BVConst(v, 64), true
	case "pu_ok":
		_, err := strconv.ParseUint(arg.Str, 10, 64)
		return BoolConst(err == nil), true
	case "sha256":
		h := sha256.Sum256([]byte(arg.Str))
		return StrConst(string(h[:])), true
	case "hexenc":
		return StrConst(hex.EncodeToString([]byte(arg.Str))), true
	case "hexencU":
		return StrConst(strings.ToUpper(hex.EncodeToString([]byte(arg.Str)))), true
	case "hexdec":
		b, err := hex.DecodeString(arg.Str)
		if err != nil {
			return nil, false
		}
		return StrConst(string(b)), true
	case "hex_ok":
		_, err := hex.DecodeString(arg.Str)
		return BoolConst(err == nil), true
	case "be64":
		var b [8]byte
		for i := 0; i < 8; i++ {
			b[i] = byte(arg.BV >> uint(8*(7-i)))
		}
		return StrConst(string(b[:])), true
	case "unbe64":
		if len(arg.Str) != 8 {
			return nil, false
		}
		var v uint64
		for i := 0; i < 8; i++ {
			v = v<<8 | uint64(arg.Str[i])
		}
		return BVConst(v, 64), true
	case "tolower":
		return StrConst(strings.ToLower(arg.Str)), true
	case "toupper":
		return StrConst(strings.ToUpper(arg.Str)), true
	case "trimspace":
		return StrConst(strings.TrimSpace(arg.Str)), true
	}
	return nil, false
}

// solveConcrete returns a model that agrees with the real functions, or unsat/unknown.
func (e *Engine) solveConcrete(extra []*T, timeoutMs int) (QueryResult, []string, int) {
	var apps []*T
	seen := map[*T]bool{}
	collectUFApps(e.axioms, seen, &apps)
	collectUFApps(e.pc, seen, &apps)
	collectUFApps(extra, seen, &apps)
	base := e.world.modelTerms()
	var pins []*T
	pinned := map[string]bool{}
	rounds := 0
	for {
		values := append([]*T{}, base...)
		for _, a := range apps {
			values = append(values, a.Args[0], a)
		}
		r, names, _ := e.solve(append(append([]*T{}, extra...), pins...), true, timeoutMs, values)
		if r.Res != "sat" || len(apps) == 0 {
			return r, names, rounds
		}
		kvs := parseModel(r.Model)
		off := len(names) + len(base)
		var newPins, fixes []*T
		for i, a := range apps {
			j := off + 2*i
			if j+1 >= len(kvs) {
				break
			}
			argT, ok1 := mvToTerm(kvs[j].Val, a.Args[0].Sort)
			appT, ok2 := mvToTerm(kvs[j+1].Val, a.Sort)
			if !ok1 || !ok2 {
				continue
			}
			real, ok := realValue(a.Name, argT)
			if !ok {
				continue
			}
			if !constEq(real, appT) {
				key := a.Name + ":" + argT.String()
				if !pinned[key] {
					pinned[key] = true
					pin := UF(a.Name, a.Sort, argT)
					pin.FixLen = a.FixLen
					newPins = append(newPins, Eq(pin, real))
				}
				fixes = append(fixes, Eq(a.Args[0], argT))
			}
		}
		if len(newPins) == 0 {
			return r, names, rounds // consistent with the real functions
		}
		rounds++
		if rounds > 8 {
			r.Res = "unknown"
			return r, names, rounds
		}
		pins = append(pins, newPins...)
		// first try to keep the stand-in arguments at the model's values (usually enough: only keys change)
		r2, names2, _ := e.solve(append(append(append([]*T{}, extra...), pins...), fixes...), true, timeoutMs, values)
		if r2.Res == "sat" {
			kv2 := parseModel(r2.Model)
			consistent := true
			for i, a := range apps {
				j := len(names2) + len(base) + 2*i
				if j+1 >= len(kv2) {
					break
				}
				argT, ok1 := mvToTerm(kv2[j].Val, a.Args[0].Sort)
				appT, ok2 := mvToTerm(kv2[j+1].Val, a.Sort)
				if !ok1 || !ok2 {
					continue
				}
				if real, ok := realValue(a.Name, argT); ok && !constEq(real, appT) {
					consistent = false
				}
			}
			if consistent {
				return r2, names2, rounds
			}
		}
	}
}

var _ = fmt.Sprintf
