// Codec model: per message type an uninterpreted enc/dec pair over the message's leaf fields.
//   Decode(bz, *T): every leaf field becomes dec_T_path(bz); repeated fields get a concrete length chosen by forking
//   within a stated bound, tied to the UF declen_T_path(bz).
//   Encode(*T): enc_T_shape(leaves...) with axioms dec_T_path(enc) = leaf, declen(enc) = n.
package main

import (
	"fmt"
	"go/types"
	"strings"

	"golang.org/x/tools/go/ssa"
)

func sanitize(s string) string {
	r := strings.NewReplacer("/", "_", ".", "_", "*", "", "-", "_", "[", "_", "]", "_", " ", "", ",", "_", "(", "", ")", "")
	return r.Replace(s)
}

func shortType(t types.Type) string {
	s := types.TypeString(t, nil)
	s = strings.ReplaceAll(s, "github.com/cosmos/ibc-go/v11/modules/", "")
	s = strings.ReplaceAll(s, "github.com/cosmos/", "")
	return sanitize(s)
}

type leaf struct {
	path string
	sort Sort
	kind string // term, time, sdkint
}

func (e *Engine) repeatedBound(path string) (int, int) {
	if b, ok := e.repBounds[path]; ok {
		return b[0], b[1]
	}
	// suffix match on "Type.Field"
	for k, b := range e.repBounds {
		if strings.HasSuffix(path, k) {
			return b[0], b[1]
		}
	}
	return 1, 1
}

// decLeaf is dec_path(bz), or the original leaf when bz is an encoding produced on this path (decode(encode(x)) = x).
func (e *Engine) decLeaf(path string, s Sort, bz *T) *T {
	if m := e.encInfo[bz]; m != nil {
		if t, ok := m[path]; ok && t.Sort == s {
			return t
		}
	}
	// a conditional between encodings decodes to the conditional between their fields
	if bz.Op == "ite" {
		a, b := e.decLeaf(path, s, bz.Args[1]), e.decLeaf(path, s, bz.Args[2])
		if !(a.Op == "uf" && a.Name == "dec"+path) || !(b.Op == "uf" && b.Name == "dec"+path) {
			return Ite(bz.Args[0], a, b)
		}
	}
	return UF("dec"+path, s, bz)
}

// decodeInto fills l (of type l.T) with uninterpreted functions of bz.
func (e *Engine) decodeInto(l *Loc, bz *T, path string, depth int) {
	if depth > 8 {
		panic(inconclusive{"decode depth exceeded at " + path})
	}
	switch opaqueKind(l.T) {
	case "time":
		ns := e.decLeaf(path+"#nsec", BVS(64), bz)
		if ns.Op == "uf" {
			e.pc = append(e.pc, BVCmp("bvult", ns, billion))
		}
		l.Val = &TimeVal{Sec: e.decLeaf(path+"#sec", BVS(64), bz), Nsec: ns}
		return
	case "sdkint":
		l.Val = &IntVal{V: e.decLeaf(path, IntS, bz)}
		return
	}
	switch u := l.T.Underlying().(type) {
	case *types.Struct:
		for i, f := range l.Fields {
			fname := u.Field(i).Name()
			if strings.HasPrefix(fname, "XXX_") || fname == "cachedValue" || fname == "compat" {
				continue
			}
			e.decodeInto(f, bz, path+"_"+fname, depth+1)
		}
	case *types.Basic:
		s, ok := sortOf(l.T)
		if !ok {
			return
		}
		l.Val = e.decLeaf(path, s, bz)
	case *types.Slice:
		if isByteSlice(l.T) {
			l.Val = e.decLeaf(path, StrS, bz)
			return
		}
		var n int
		if m := e.encInfo[bz]; m != nil && m["#len"+path] != nil {
			n = int(m["#len"+path].Int.Int64())
		} else {
			lo, hi := e.repeatedBound(path)
			lenUF := UF("declen"+path, IntS, bz)
			e.note(fmt.Sprintf("decoded repeated field %s bounded to %d..%d elements", path, lo, hi))
			k := e.choose(hi-lo+1, func(i int) *T { return Eq(lenUF, IntConst(int64(lo+i))) })
			n = lo + k
		}
		arr := e.newLoc(types.NewArray(u.Elem(), int64(n)))
		for i := 0; i < n; i++ {
			e.decodeInto(arr.Elems[i], bz, fmt.Sprintf("%s_%d", path, i), depth+1)
		}
		if n == 0 {
			l.Val = (*SliceVal)(nil)
		} else {
			l.Val = &SliceVal{Arr: arr, Len: n, Cap: n}
		}
	case *types.Pointer:
		if _, isStruct := u.Elem().Underlying().(*types.Struct); isStruct {
			nl := e.newLoc(u.Elem())
			e.decodeInto(nl, bz, path, depth+1)
			l.Val = &PtrVal{nl}
			return
		}
		l.Val = nil
	case *types.Array:
		for i, el := range l.Elems {
			e.decodeInto(el, bz, fmt.Sprintf("%s_%d", path, i), depth+1)
		}
	case *types.Interface:
		// oneof / Any-typed fields: decoded as nil unless a candidate set is registered for the interface
		l.Val = e.decodeIfaceField(l.T, bz, path, depth)
	default:
		l.Val = nil
	}
}

func (e *Engine) decodeIfaceField(t types.Type, bz *T, path string, depth int) Value {
	cands := e.ifaceCands[typeKey(t)]
	if len(cands) == 0 {
		return nil
	}
	var k int
	if m := e.encInfo[bz]; m != nil && m["@type"+path] != nil {
		k = int(m["@type"+path].Int.Int64())
	} else {
		tag := UF("dectype"+path, IntS, bz)
		k = e.choose(len(cands), func(i int) *T { return Eq(tag, IntConst(int64(i))) })
	}
	ct := cands[k]
	pt := ct.(*types.Pointer)
	nl := e.newLoc(pt.Elem())
	e.decodeInto(nl, bz, path+"_"+shortType(pt.Elem()), depth+1)
	return &IfaceVal{T: ct, V: &PtrVal{nl}}
}

// collectLeaves flattens a value into (path, term) leaves plus shape constraints.
type encLeaf struct {
	path string
	t    *T
}

func (e *Engine) collectLeaves(v Value, t types.Type, path string, leaves *[]encLeaf, lens *[]encLeaf, depth int) {
	if depth > 8 {
		panic(inconclusive{"encode depth exceeded at " + path})
	}
	switch opaqueKind(t) {
	case "time":
		*leaves = append(*leaves, encLeaf{path + "#sec", v.(*TimeVal).Sec}, encLeaf{path + "#nsec", v.(*TimeVal).Nsec})
		return
	case "sdkint":
		*leaves = append(*leaves, encLeaf{path, v.(*IntVal).V})
		return
	}
	switch u := t.Underlying().(type) {
	case *types.Struct:
		sv, ok := v.(*StructVal)
		if !ok {
			panic(inconclusive{fmt.Sprintf("encode: struct expected at %s, got %T", path, v)})
		}
		for i := 0; i < u.NumFields(); i++ {
			fname := u.Field(i).Name()
			if strings.HasPrefix(fname, "XXX_") || fname == "cachedValue" || fname == "compat" {
				continue
			}
			e.collectLeaves(sv.F[i], u.Field(i).Type(), path+"_"+fname, leaves, lens, depth+1)
		}
	case *types.Basic:
		if tt, ok := v.(*T); ok {
			*leaves = append(*leaves, encLeaf{path, tt})
		}
	case *types.Slice:
		if isByteSlice(t) {
			*leaves = append(*leaves, encLeaf{path, toSeq(v)})
			return
		}
		els := sliceElems(v)
		*lens = append(*lens, encLeaf{path, IntConst(int64(len(els)))})
		for i, el := range els {
			e.collectLeaves(load(el), u.Elem(), fmt.Sprintf("%s_%d", path, i), leaves, lens, depth+1)
		}
	case *types.Pointer:
		if _, isStruct := u.Elem().Underlying().(*types.Struct); isStruct {
			p, _ := v.(*PtrVal)
			if p == nil {
				panic(inconclusive{"encode: nil message pointer at " + path})
			}
			e.collectLeaves(load(p.L), u.Elem(), path, leaves, lens, depth+1)
		}
	case *types.Array:
		sv := v.(*StructVal)
		for i, f := range sv.F {
			e.collectLeaves(f, u.Elem(), fmt.Sprintf("%s_%d", path, i), leaves, lens, depth+1)
		}
	case *types.Interface:
		iv, _ := v.(*IfaceVal)
		if iv == nil {
			return
		}
		cands := e.ifaceCands[typeKey(t)]
		for i, c := range cands {
			if iv.T != nil && types.Identical(c, iv.T) {
				*lens = append(*lens, encLeaf{"@type" + path, IntConst(int64(i))})
				pt := c.(*types.Pointer)
				e.collectLeaves(load(iv.V.(*PtrVal).L), pt.Elem(), path+"_"+shortType(pt.Elem()), leaves, lens, depth+1)
				return
			}
		}
		panic(inconclusive{"encode: interface value of unregistered type at " + path})
	}
}

// encode produces enc_T(leaves) with the decode axioms instantiated on this term.
func (e *Engine) encode(v Value, t types.Type, tname string) *T {
	var leaves, lens []encLeaf
	e.collectLeaves(v, t, "_"+tname, &leaves, &lens, 0)
	args := make([]*T, len(leaves))
	shape := ""
	for _, l := range lens {
		shape += "_" + l.t.Int.String()
	}
	for i, l := range leaves {
		args[i] = l.t
	}
	enc := UF("enc_"+tname+shape, StrS, args...)
	key := fmt.Sprintf("enc:%d", enc.id)
	var ax []*T
	for _, l := range leaves {
		ax = append(ax, Eq(UF("dec"+l.path, l.t.Sort, enc), l.t))
	}
	for _, l := range lens {
		if strings.HasPrefix(l.path, "@type") {
			ax = append(ax, Eq(UF("dectype"+l.path[5:], IntS, enc), l.t))
		} else {
			ax = append(ax, Eq(UF("declen"+l.path, IntS, enc), l.t))
		}
	}
	// an encoded message is never the empty byte string (absent store value); see DESIGN 2.4
	ax = append(ax, Not(Eq(enc, StrConst(""))))
	e.addAxiom(key, AndN(ax...))
	e.recordEnc(enc, leaves, lens)
	return enc
}

func (e *Engine) recordEnc(enc *T, leaves, lens []encLeaf) {
	m := map[string]*T{}
	for _, l := range leaves {
		m[l.path] = l.t
	}
	for _, l := range lens {
		if strings.HasPrefix(l.path, "@type") {
			m[l.path] = l.t
		} else {
			m["#len"+l.path] = l.t
		}
	}
	e.encInfo[enc] = m
}

func init() {
	reg(vp+"Decode", func(e *Engine, fn *ssa.Function, a []Value) Value {
		e.effect("decode")
		iv, _ := a[1].(*IfaceVal)
		if iv == nil {
			e.goPanicf("Decode into nil")
		}
		p, _ := iv.V.(*PtrVal)
		if p == nil {
			e.goPanicf("Decode into nil pointer")
		}
		bz := toSeq(a[0])
		e.decodeInto(p.L, bz, "_"+shortType(p.L.T), 0)
		// log the decoded leaves so a counterexample can be rebuilt with the real codec
		// (values produced by Encode on this path are rebuilt natively by the same setters, so they are not logged)
		if e.encInfo[bz] != nil {
			return nil
		}
		var leaves, lens []encLeaf
		e.collectLeaves(load(p.L), p.L.T, "_"+shortType(p.L.T), &leaves, &lens, 0)
		for _, l := range lens {
			leaves = append(leaves, encLeaf{"#len" + l.path, l.t})
		}
		e.world.decodeLog = append(e.world.decodeLog, decodeEntry{bz: bz, typ: typeKey(p.L.T), leaves: leaves})
		return nil
	})
	reg(vp+"Encode", func(e *Engine, fn *ssa.Function, a []Value) Value {
		iv, _ := a[0].(*IfaceVal)
		if iv == nil {
			e.goPanicf("Encode of nil")
		}
		p, _ := iv.V.(*PtrVal)
		if p == nil {
			e.goPanicf("Encode of nil pointer")
		}
		return e.encode(load(p.L), p.L.T, shortType(p.L.T))
	})
	// DecodeIface(bz, ptrToInterface): picks one of the registered concrete types
	reg(vp+"DecodeIface", func(e *Engine, fn *ssa.Function, a []Value) Value {
		e.effect("decode")
		iv, _ := a[1].(*IfaceVal)
		p := iv.V.(*PtrVal)
		v := e.decodeIfaceField(p.L.T, toSeq(a[0]), "_any", 0)
		if v == nil {
			panic(inconclusive{"DecodeIface: no candidate types registered for " + p.L.T.String()})
		}
		store(p.L, v)
		return nil
	})
	reg(vp+"EncodeIface", func(e *Engine, fn *ssa.Function, a []Value) Value {
		iv, _ := a[0].(*IfaceVal)
		if iv == nil {
			e.goPanicf("EncodeIface of nil")
		}
		ifaceName := constStr(a[1], "interface name")
		cands := e.ifaceCands[ifaceName]
		for i, c := range cands {
			if types.Identical(c, iv.T) {
				pt := c.(*types.Pointer)
				var leaves, lens []encLeaf
				lens = append(lens, encLeaf{"@type_any", IntConst(int64(i))})
				e.collectLeaves(load(iv.V.(*PtrVal).L), pt.Elem(), "_any_"+shortType(pt.Elem()), &leaves, &lens, 0)
				args := make([]*T, len(leaves))
				shape := ""
				for _, l := range lens {
					shape += "_" + l.t.Int.String()
				}
				for j, l := range leaves {
					args[j] = l.t
				}
				enc := UF("enc_any_"+shortType(pt.Elem())+shape, StrS, args...)
				var ax []*T
				for _, l := range leaves {
					ax = append(ax, Eq(UF("dec"+l.path, l.t.Sort, enc), l.t))
				}
				for _, l := range lens {
					if strings.HasPrefix(l.path, "@type") {
						ax = append(ax, Eq(UF("dectype"+l.path[5:], IntS, enc), l.t))
					} else {
						ax = append(ax, Eq(UF("declen"+l.path, IntS, enc), l.t))
					}
				}
				ax = append(ax, Not(Eq(enc, StrConst(""))))
				e.addAxiom(fmt.Sprintf("enc:%d", enc.id), AndN(ax...))
				e.recordEnc(enc, leaves, lens)
				return enc
			}
		}
		panic(inconclusive{"EncodeIface: unregistered concrete type " + iv.T.String() + " for " + ifaceName})
	})
	// RegisterIface("pkg.Iface", &Concrete{}) declares a candidate concrete type for interface-typed decoding
	reg(vp+"RegisterIface", func(e *Engine, fn *ssa.Function, a []Value) Value {
		name := constStr(a[0], "interface name")
		iv := a[1].(*IfaceVal)
		for _, c := range e.ifaceCands[name] {
			if types.Identical(c, iv.T) {
				return nil
			}
		}
		e.ifaceCands[name] = append(e.ifaceCands[name], iv.T)
		return nil
	})
	reg(vp+"RepeatedBound", func(e *Engine, fn *ssa.Function, a []Value) Value {
		e.repBounds[sanitize(constStr(a[0], "field path"))] = [2]int{constInt(a[1], "lo"), constInt(a[2], "hi")}
		return nil
	})
}
