// Query construction (declarations collected from the terms), model parsing, regex translation.
package main

import (
	"fmt"
	"math/big"
	"regexp/syntax"
	"sort"
	"strconv"
	"strings"
)

type decls struct {
	vars  map[string]Sort
	ufs   map[string]string // name -> declaration
	order []string
	seen  map[*T]bool
}

func (d *decls) walk(t *T) {
	if d.seen[t] {
		return
	}
	d.seen[t] = true
	switch t.Op {
	case "var":
		if _, ok := d.vars[t.Name]; !ok {
			d.vars[t.Name] = t.Sort
			d.order = append(d.order, "v:"+t.Name)
		}
	case "uf":
		if _, ok := d.ufs[t.Name]; !ok {
			var as []string
			for _, a := range t.Args {
				as = append(as, a.Sort.SMT())
			}
			d.ufs[t.Name] = fmt.Sprintf("(declare-fun %s (%s) %s)", ufSym(t.Name), strings.Join(as, " "), t.Sort.SMT())
			d.order = append(d.order, "u:"+t.Name)
		}
	}
	for _, a := range t.Args {
		d.walk(a)
	}
}

// buildScript renders declarations + assertions. Returns the script and the list of variable symbols (quoted).
func buildScript(asserts []*T, extraValues []*T) (string, []string, []string) {
	d := &decls{vars: map[string]Sort{}, ufs: map[string]string{}, seen: map[*T]bool{}}
	for _, a := range asserts {
		d.walk(a)
	}
	for _, a := range extraValues {
		d.walk(a)
	}
	p := newPrinter()
	for _, a := range asserts {
		p.count(a)
	}
	for _, a := range extraValues {
		p.count(a)
	}
	var body []string
	for _, a := range asserts {
		if a.IsTrue() {
			continue
		}
		s := p.str(a)
		body = append(body, "(assert "+s+")")
	}
	var evs []string
	for _, a := range extraValues {
		evs = append(evs, p.str(a))
	}
	var sb strings.Builder
	var names []string
	for _, o := range d.order {
		if o[0] == 'v' {
			n := o[2:]
			fmt.Fprintf(&sb, "(declare-const %s %s)\n", quoteSym(n), d.vars[n].SMT())
			names = append(names, n)
		} else {
			sb.WriteString(d.ufs[o[2:]] + "\n")
		}
	}
	// defs were appended in dependency order while printing
	// interleave: all defs first (they only reference earlier defs / declared symbols)
	for _, df := range p.defs {
		sb.WriteString(df + "\n")
	}
	for _, b := range body {
		sb.WriteString(b + "\n")
	}
	return sb.String(), names, evs
}

// ---------- model parsing ----------

type sexp struct {
	atom string
	list []*sexp
	isS  bool // string literal
}

func parseSexp(s string) (*sexp, error) {
	pos := 0
	var parse func() (*sexp, error)
	skip := func() {
		for pos < len(s) && (s[pos] == ' ' || s[pos] == '\n' || s[pos] == '\t' || s[pos] == '\r') {
			pos++
		}
	}
	parse = func() (*sexp, error) {
		skip()
		if pos >= len(s) {
			return nil, fmt.Errorf("eof")
		}
		switch s[pos] {
		case '(':
			pos++
			n := &sexp{list: []*sexp{}}
			for {
				skip()
				if pos >= len(s) {
					return nil, fmt.Errorf("eof in list")
				}
				if s[pos] == ')' {
					pos++
					return n, nil
				}
				c, err := parse()
				if err != nil {
					return nil, err
				}
				n.list = append(n.list, c)
			}
		case '"':
			pos++
			var sb strings.Builder
			for pos < len(s) {
				if s[pos] == '"' {
					if pos+1 < len(s) && s[pos+1] == '"' {
						sb.WriteByte('"')
						pos += 2
						continue
					}
					pos++
					break
				}
				sb.WriteByte(s[pos])
				pos++
			}
			return &sexp{atom: sb.String(), isS: true}, nil
		case '|':
			e := strings.IndexByte(s[pos+1:], '|')
			a := s[pos : pos+e+2]
			pos += e + 2
			return &sexp{atom: a}, nil
		default:
			st := pos
			for pos < len(s) && !strings.ContainsRune(" \n\t\r()", rune(s[pos])) {
				pos++
			}
			return &sexp{atom: s[st:pos]}, nil
		}
	}
	return parse()
}

func (x *sexp) String() string {
	if x.list == nil {
		if x.isS {
			return smtString(x.atom)
		}
		return x.atom
	}
	var ps []string
	for _, c := range x.list {
		ps = append(ps, c.String())
	}
	return "(" + strings.Join(ps, " ") + ")"
}

// unescape SMT-LIB string literal content (\u{..}, \ud, \x.. forms) into bytes.
func smtUnescape(in string) string {
	var out []byte
	for i := 0; i < len(in); i++ {
		if in[i] == '\\' && i+1 < len(in) && in[i+1] == 'u' {
			if i+2 < len(in) && in[i+2] == '{' {
				j := strings.IndexByte(in[i:], '}')
				if j > 0 {
					c, err := strconv.ParseUint(in[i+3:i+j], 16, 32)
					if err == nil {
						out = append(out, byte(c))
						i += j
						continue
					}
				}
			} else if i+5 < len(in) {
				c, err := strconv.ParseUint(in[i+2:i+6], 16, 32)
				if err == nil {
					out = append(out, byte(c))
					i += 5
					continue
				}
			}
		}
		if in[i] == '\\' && i+3 < len(in) && in[i+1] == 'x' {
			c, err := strconv.ParseUint(in[i+2:i+4], 16, 8)
			if err == nil {
				out = append(out, byte(c))
				i += 3
				continue
			}
		}
		out = append(out, in[i])
	}
	return string(out)
}

// ModelValue is a concrete value from a solver model.
type ModelValue struct {
	Kind string // bool bv int str other
	B    bool
	U    uint64
	W    int
	I    *big.Int
	S    string
	Raw  string
}

func (m ModelValue) JSON() interface{} {
	switch m.Kind {
	case "bool":
		return m.B
	case "bv":
		return map[string]interface{}{"bv": strconv.FormatUint(m.U, 10), "w": m.W}
	case "int":
		return map[string]interface{}{"int": m.I.String()}
	case "str":
		return map[string]interface{}{"bytes": fmt.Sprintf("%x", m.S), "text": strconv.QuoteToASCII(m.S)}
	}
	return map[string]interface{}{"raw": m.Raw}
}

func parseValue(x *sexp) ModelValue {
	if x.list == nil {
		a := x.atom
		switch {
		case x.isS:
			return ModelValue{Kind: "str", S: smtUnescape(a)}
		case a == "true" || a == "false":
			return ModelValue{Kind: "bool", B: a == "true"}
		case strings.HasPrefix(a, "#x"):
			v, _ := strconv.ParseUint(a[2:], 16, 64)
			return ModelValue{Kind: "bv", U: v, W: 4 * (len(a) - 2)}
		case strings.HasPrefix(a, "#b"):
			v, _ := strconv.ParseUint(a[2:], 2, 64)
			return ModelValue{Kind: "bv", U: v, W: len(a) - 2}
		default:
			if i, ok := new(big.Int).SetString(a, 10); ok {
				return ModelValue{Kind: "int", I: i}
			}
		}
		return ModelValue{Kind: "other", Raw: a}
	}
	l := x.list
	if len(l) == 2 && l[0].atom == "-" {
		v := parseValue(l[1])
		if v.Kind == "int" {
			return ModelValue{Kind: "int", I: new(big.Int).Neg(v.I)}
		}
	}
	if len(l) == 3 && l[0].atom == "_" && strings.HasPrefix(l[1].atom, "bv") {
		v, _ := strconv.ParseUint(l[1].atom[2:], 10, 64)
		w, _ := strconv.Atoi(l[2].atom)
		return ModelValue{Kind: "bv", U: v, W: w}
	}
	return ModelValue{Kind: "other", Raw: x.String()}
}

// parseModel parses "((sym val) (sym val) ...)" keyed by the printed symbol/term.
func parseModel(raw string) []struct {
	Key string
	Val ModelValue
} {
	x, err := parseSexp(raw)
	if err != nil || x.list == nil {
		return nil
	}
	var out []struct {
		Key string
		Val ModelValue
	}
	for _, p := range x.list {
		if len(p.list) != 2 {
			continue
		}
		k := p.list[0].String()
		out = append(out, struct {
			Key string
			Val ModelValue
		}{strings.Trim(k, "|"), parseValue(p.list[1])})
	}
	return out
}

// ---------- regex translation (Go regexp -> SMT-LIB RegLan) ----------

func regexToSMT(pat string) (string, error) {
	re, err := syntax.Parse(pat, syntax.Perl)
	if err != nil {
		return "", err
	}
	// no Simplify(): it unrolls bounded repetitions x{m,n} into nested options, which the solvers handle far worse than re.loop
	// we require the pattern to be anchored at both ends (MatchString semantics are "contains" otherwise)
	s, err := reNode(re)
	if err != nil {
		return "", err
	}
	return s, nil
}

func reNode(re *syntax.Regexp) (string, error) {
	switch re.Op {
	case syntax.OpEmptyMatch:
		return `(str.to_re "")`, nil
	case syntax.OpLiteral:
		return "(str.to_re " + smtString(string(re.Rune)) + ")", nil
	case syntax.OpCharClass:
		var parts []string
		for i := 0; i+1 < len(re.Rune); i += 2 {
			lo, hi := re.Rune[i], re.Rune[i+1]
			if lo > 255 {
				continue
			}
			if hi > 255 {
				hi = 255
			}
			if lo == hi {
				parts = append(parts, "(str.to_re "+smtString(string([]byte{byte(lo)}))+")")
			} else {
				parts = append(parts, "(re.range "+smtString(string([]byte{byte(lo)}))+" "+smtString(string([]byte{byte(hi)}))+")")
			}
		}
		if len(parts) == 0 {
			return "re.none", nil
		}
		if len(parts) == 1 {
			return parts[0], nil
		}
		return "(re.union " + strings.Join(parts, " ") + ")", nil
	case syntax.OpAnyCharNotNL, syntax.OpAnyChar:
		return "re.allchar", nil
	case syntax.OpBeginText, syntax.OpEndText, syntax.OpBeginLine, syntax.OpEndLine:
		return `(str.to_re "")`, nil // anchors handled by caller
	case syntax.OpCapture:
		return reNode(re.Sub[0])
	case syntax.OpStar:
		s, err := reNode(re.Sub[0])
		return "(re.* " + s + ")", err
	case syntax.OpPlus:
		s, err := reNode(re.Sub[0])
		return "(re.+ " + s + ")", err
	case syntax.OpQuest:
		s, err := reNode(re.Sub[0])
		return "(re.opt " + s + ")", err
	case syntax.OpRepeat:
		s, err := reNode(re.Sub[0])
		if err != nil {
			return "", err
		}
		if re.Max == -1 {
			return fmt.Sprintf("(re.++ ((_ re.^ %d) %s) (re.* %s))", re.Min, s, s), nil
		}
		return fmt.Sprintf("((_ re.loop %d %d) %s)", re.Min, re.Max, s), nil
	case syntax.OpConcat:
		var ps []string
		for _, sub := range re.Sub {
			s, err := reNode(sub)
			if err != nil {
				return "", err
			}
			ps = append(ps, s)
		}
		if len(ps) == 1 {
			return ps[0], nil
		}
		return "(re.++ " + strings.Join(ps, " ") + ")", nil
	case syntax.OpAlternate:
		var ps []string
		for _, sub := range re.Sub {
			s, err := reNode(sub)
			if err != nil {
				return "", err
			}
			ps = append(ps, s)
		}
		return "(re.union " + strings.Join(ps, " ") + ")", nil
	}
	return "", fmt.Errorf("unsupported regex op %v", re.Op)
}

// regexAnchored reports whether pattern starts with ^ and ends with $.
func regexAnchored(pat string) (bool, bool) {
	return strings.HasPrefix(pat, "^"), strings.HasSuffix(pat, "$") && !strings.HasSuffix(pat, `\$`)
}

// regexMatchTerm builds the term for re.MatchString(s) with Go's unanchored semantics.
func regexMatchTerm(pat string, s *T) (*T, error) {
	body, err := regexToSMT(pat)
	if err != nil {
		return nil, err
	}
	a, z := regexAnchored(pat)
	if !a {
		body = "(re.++ re.all " + body + ")"
	}
	if !z {
		body = "(re.++ " + body + " re.all)"
	}
	return InRe(s, body), nil
}

func sortedKeys(m map[string]int) []string {
	var ks []string
	for k := range m {
		ks = append(ks, k)
	}
	sort.Strings(ks)
	return ks
}
