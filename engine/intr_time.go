// Intrinsics: time.Time / time.Duration (unix nanoseconds as signed 64-bit), prefix stores, decode flags.
package main

import (
	"golang.org/x/tools/go/ssa"
)

func timeOf(v Value) *TimeVal {
	switch x := v.(type) {
	case *TimeVal:
		return x
	case *PtrVal:
		if tv, ok := load(x.L).(*TimeVal); ok {
			return tv
		}
	}
	panic(inconclusive{"time value expected"})
}

var billion = BVConst(1000000000, 64)

func init() {
	reg("(time.Time).UnixNano", func(e *Engine, fn *ssa.Function, a []Value) Value { return timeOf(a[0]).Ns })
	reg("(time.Time).Unix", func(e *Engine, fn *ssa.Function, a []Value) Value {
		// floor division for the representable range (block times are >= 0 in every harness)
		return BVBin("bvsdiv", timeOf(a[0]).Ns, billion)
	})
	reg("(time.Time).Nanosecond", func(e *Engine, fn *ssa.Function, a []Value) Value {
		return BVBin("bvsrem", timeOf(a[0]).Ns, billion)
	})
	reg("time.Unix", func(e *Engine, fn *ssa.Function, a []Value) Value {
		sec, nsec := a[0].(*T), a[1].(*T)
		e.note("time.Unix(sec, nsec): modelled as sec*1e9+nsec in wrapping int64 (times outside the int64-nanosecond range are outside the claim)")
		return &TimeVal{Ns: BVBin("bvadd", BVBin("bvmul", sec, billion), nsec)}
	})
	reg("(time.Time).After", func(e *Engine, fn *ssa.Function, a []Value) Value {
		return BVCmp("bvsgt", timeOf(a[0]).Ns, timeOf(a[1]).Ns)
	})
	reg("(time.Time).Before", func(e *Engine, fn *ssa.Function, a []Value) Value {
		return BVCmp("bvslt", timeOf(a[0]).Ns, timeOf(a[1]).Ns)
	})
	reg("(time.Time).Equal", func(e *Engine, fn *ssa.Function, a []Value) Value {
		return Eq(timeOf(a[0]).Ns, timeOf(a[1]).Ns)
	})
	reg("(time.Time).IsZero", func(e *Engine, fn *ssa.Function, a []Value) Value {
		// the zero time.Time (year 1) is not representable as int64 nanoseconds; decoded/zero values use 0
		return Eq(timeOf(a[0]).Ns, BVConst(0, 64))
	})
	reg("(time.Time).Add", func(e *Engine, fn *ssa.Function, a []Value) Value {
		return &TimeVal{Ns: BVBin("bvadd", timeOf(a[0]).Ns, a[1].(*T))}
	})
	reg("(time.Time).Sub", func(e *Engine, fn *ssa.Function, a []Value) Value {
		return BVBin("bvsub", timeOf(a[0]).Ns, timeOf(a[1]).Ns)
	})
	reg("(time.Time).UTC", func(e *Engine, fn *ssa.Function, a []Value) Value { return timeOf(a[0]) })
	reg("(time.Time).Round", func(e *Engine, fn *ssa.Function, a []Value) Value { return timeOf(a[0]) })
	reg("(time.Time).String", func(e *Engine, fn *ssa.Function, a []Value) Value { return StrConst("<time>") })
	reg("(time.Duration).Nanoseconds", func(e *Engine, fn *ssa.Function, a []Value) Value { return a[0] })
	reg("(time.Duration).String", func(e *Engine, fn *ssa.Function, a []Value) Value { return StrConst("<duration>") })
	reg("(time.Duration).Seconds", func(e *Engine, fn *ssa.Function, a []Value) Value {
		return mk("fp.div RNE", FPS, mk("(_ to_fp 11 53) RNE", FPS, a[0].(*T)), fpConst(1e9))
	})

	reg(vp+"DecodeOK", func(e *Engine, fn *ssa.Function, a []Value) Value {
		if !e.decodeMayFail {
			return tTrue
		}
		iv := a[1].(*IfaceVal)
		return UF("decok_"+shortType(iv.T), BoolS, toSeq(a[0]))
	})
	reg(vp+"DecodeIfaceOK", func(e *Engine, fn *ssa.Function, a []Value) Value {
		if !e.decodeMayFail {
			return tTrue
		}
		return UF("decok_any", BoolS, toSeq(a[0]))
	})
	reg(vp+"DecodeMayFail", func(e *Engine, fn *ssa.Function, a []Value) Value {
		e.decodeMayFail = a[0].(*T).IsTrue()
		return nil
	})
}
