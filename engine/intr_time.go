// Intrinsics: time.Time (unix seconds + nanoseconds) / time.Duration, decode flags.
package main

import (
	"golang.org/x/tools/go/ssa"
)

func timeOf(v Value) *TimeVal {
	switch x := v.(type) {
	case *TimeVal:
		return x
	case *PtrVal:
		if tv, ok := load(x.L).(*TimeVal); ok {
			return tv
		}
	}
	panic(inconclusive{"time value expected"})
}

var billion = BVConst(1000000000, 64)

// floorDivMod1e9: floor division and non-negative remainder of a signed nanosecond count by 1e9.
func floorDivMod1e9(ns *T) (*T, *T) {
	if ns.IsConst() {
		v := ns.SignedBV()
		q, r := v/1000000000, v%1000000000
		if r < 0 {
			q--
			r += 1000000000
		}
		return BVConst(uint64(q), 64), BVConst(uint64(r), 64)
	}
	q := BVBin("bvsdiv", ns, billion)
	r := BVBin("bvsrem", ns, billion)
	neg := BVCmp("bvslt", r, BVConst(0, 64))
	return Ite(neg, BVBin("bvsub", q, BVConst(1, 64)), q), Ite(neg, BVBin("bvadd", r, billion), r)
}

func timeLess(a, b *TimeVal) *T {
	return Or(BVCmp("bvslt", a.Sec, b.Sec), And(Eq(a.Sec, b.Sec), BVCmp("bvult", a.Nsec, b.Nsec)))
}

func init() {
	reg("(time.Time).UnixNano", func(e *Engine, fn *ssa.Function, a []Value) Value {
		t := timeOf(a[0])
		return BVBin("bvadd", BVBin("bvmul", t.Sec, billion), t.Nsec)
	})
	reg("(time.Time).Unix", func(e *Engine, fn *ssa.Function, a []Value) Value { return timeOf(a[0]).Sec })
	reg("(time.Time).Nanosecond", func(e *Engine, fn *ssa.Function, a []Value) Value { return timeOf(a[0]).Nsec })
	reg("time.Unix", func(e *Engine, fn *ssa.Function, a []Value) Value {
		sec, nsec := a[0].(*T), a[1].(*T)
		if nsec.IsConst() && nsec.SignedBV() >= 0 && nsec.SignedBV() < 1000000000 {
			return &TimeVal{Sec: sec, Nsec: nsec}
		}
		q, r := floorDivMod1e9(nsec)
		return &TimeVal{Sec: BVBin("bvadd", sec, q), Nsec: r}
	})
	reg("(time.Time).After", func(e *Engine, fn *ssa.Function, a []Value) Value { return timeLess(timeOf(a[1]), timeOf(a[0])) })
	reg("(time.Time).Before", func(e *Engine, fn *ssa.Function, a []Value) Value { return timeLess(timeOf(a[0]), timeOf(a[1])) })
	reg("(time.Time).Equal", func(e *Engine, fn *ssa.Function, a []Value) Value {
		x, y := timeOf(a[0]), timeOf(a[1])
		return And(Eq(x.Sec, y.Sec), Eq(x.Nsec, y.Nsec))
	})
	reg("(time.Time).Compare", func(e *Engine, fn *ssa.Function, a []Value) Value {
		x, y := timeOf(a[0]), timeOf(a[1])
		return Ite(timeLess(x, y), BVConst(^uint64(0), 64), Ite(timeLess(y, x), BVConst(1, 64), BVConst(0, 64)))
	})
	reg("(time.Time).IsZero", func(e *Engine, fn *ssa.Function, a []Value) Value {
		// the zero time.Time is year 1: unix seconds -62135596800
		t := timeOf(a[0])
		return And(Eq(t.Sec, BVConst(uint64(0xfffffff1886e0900), 64)), Eq(t.Nsec, BVConst(0, 64)))
	})
	reg("(time.Time).Add", func(e *Engine, fn *ssa.Function, a []Value) Value {
		t := timeOf(a[0])
		d := a[1].(*T)
		q, r := floorDivMod1e9(BVBin("bvadd", t.Nsec, d))
		if d.IsConst() && t.Nsec != nil {
			// constant duration: split it statically so that no division is needed
			dq, dr := floorDivMod1e9(d)
			sum := BVBin("bvadd", t.Nsec, dr)
			carry := BVCmp("bvuge", sum, billion)
			return &TimeVal{Sec: BVBin("bvadd", BVBin("bvadd", t.Sec, dq), Ite(carry, BVConst(1, 64), BVConst(0, 64))), Nsec: Ite(carry, BVBin("bvsub", sum, billion), sum)}
		}
		e.note("time.Add with a symbolic duration: nanosecond sum assumed not to overflow int64")
		return &TimeVal{Sec: BVBin("bvadd", t.Sec, q), Nsec: r}
	})
	reg("(time.Time).Sub", func(e *Engine, fn *ssa.Function, a []Value) Value {
		x, y := timeOf(a[0]), timeOf(a[1])
		e.note("time.Sub: result assumed representable as int64 nanoseconds (Go saturates otherwise)")
		return BVBin("bvadd", BVBin("bvmul", BVBin("bvsub", x.Sec, y.Sec), billion), BVBin("bvsub", x.Nsec, y.Nsec))
	})
	reg("(time.Time).UTC", func(e *Engine, fn *ssa.Function, a []Value) Value { return timeOf(a[0]) })
	reg("(time.Time).Round", func(e *Engine, fn *ssa.Function, a []Value) Value {
		t := timeOf(a[0])
		d := a[1].(*T)
		if !d.IsConst() {
			panic(inconclusive{"time.Round with symbolic duration"})
		}
		switch d.SignedBV() {
		case 1000000000: // nearest second, halves round up
			up := BVCmp("bvuge", t.Nsec, BVConst(500000000, 64))
			return &TimeVal{Sec: Ite(up, BVBin("bvadd", t.Sec, BVConst(1, 64)), t.Sec), Nsec: BVConst(0, 64)}
		}
		if d.SignedBV() <= 0 {
			return t
		}
		panic(inconclusive{"time.Round with a duration other than one second"})
	})
	reg("(time.Time).Truncate", func(e *Engine, fn *ssa.Function, a []Value) Value {
		t := timeOf(a[0])
		d := a[1].(*T)
		if d.IsConst() && d.SignedBV() == 1000000000 {
			return &TimeVal{Sec: t.Sec, Nsec: BVConst(0, 64)}
		}
		if d.IsConst() && d.SignedBV() <= 0 {
			return t
		}
		panic(inconclusive{"time.Truncate with a duration other than one second"})
	})
	reg("(time.Time).String", func(e *Engine, fn *ssa.Function, a []Value) Value { return StrConst("<time>") })
	reg("(time.Duration).Nanoseconds", func(e *Engine, fn *ssa.Function, a []Value) Value { return a[0] })
	reg("(time.Duration).String", func(e *Engine, fn *ssa.Function, a []Value) Value { return StrConst("<duration>") })
	reg("(time.Duration).Seconds", func(e *Engine, fn *ssa.Function, a []Value) Value {
		return mk("fp.div RNE", FPS, mk("(_ to_fp 11 53) RNE", FPS, a[0].(*T)), fpConst(1e9))
	})

	reg(vp+"DecodeOK", func(e *Engine, fn *ssa.Function, a []Value) Value {
		if !e.decodeMayFail {
			return tTrue
		}
		iv := a[1].(*IfaceVal)
		return UF("decok_"+shortType(iv.T), BoolS, toSeq(a[0]))
	})
	reg(vp+"DecodeIfaceOK", func(e *Engine, fn *ssa.Function, a []Value) Value {
		if !e.decodeMayFail {
			return tTrue
		}
		return UF("decok_any", BoolS, toSeq(a[0]))
	})
	reg(vp+"DecodeMayFail", func(e *Engine, fn *ssa.Function, a []Value) Value {
		e.decodeMayFail = a[0].(*T).IsTrue()
		return nil
	})
}
