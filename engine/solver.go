// Solver portfolio: long-lived solver processes, one query = one self-contained script followed by (reset).
package main

import (
	"bufio"
	"fmt"
	"io"
	"os"
	"os/exec"
	"strings"
	"sync"
	"sync/atomic"
	"time"
)

type SolverSpec struct {
	Name string
	Cmd  []string
	// TimeoutOpt renders the per-query timeout option for this solver.
	TimeoutOpt func(ms int) string
}

var allSolvers = []SolverSpec{
	{Name: "z3-5.1", Cmd: []string{"z3-new", "-in"}, TimeoutOpt: func(ms int) string { return fmt.Sprintf("(set-option :timeout %d)", ms) }},
	{Name: "cvc5", Cmd: []string{"cvc5", "--incremental", "--strings-exp", "--produce-models"}, TimeoutOpt: func(ms int) string { return fmt.Sprintf("(set-option :tlimit-per %d)", ms) }},
	{Name: "z3-4.8", Cmd: []string{"z3", "-in"}, TimeoutOpt: func(ms int) string { return fmt.Sprintf("(set-option :timeout %d)", ms) }},
	{Name: "cvc5-bvint", Cmd: []string{"cvc5", "--incremental", "--strings-exp", "--produce-models", "--solve-bv-as-int=sum"}, TimeoutOpt: func(ms int) string { return fmt.Sprintf("(set-option :tlimit-per %d)", ms) }},
}

type proc struct {
	spec SolverSpec
	cmd  *exec.Cmd
	in   io.WriteCloser
	out  *bufio.Reader
	dead bool
	mu   sync.Mutex
}

func startProc(spec SolverSpec) (*proc, error) {
	cmd := exec.Command(spec.Cmd[0], spec.Cmd[1:]...)
	in, err := cmd.StdinPipe()
	if err != nil {
		return nil, err
	}
	out, err := cmd.StdoutPipe()
	if err != nil {
		return nil, err
	}
	cmd.Stderr = cmd.Stdout
	if err := cmd.Start(); err != nil {
		return nil, err
	}
	return &proc{spec: spec, cmd: cmd, in: in, out: bufio.NewReaderSize(out, 1<<16)}, nil
}

func (p *proc) kill() {
	p.mu.Lock()
	defer p.mu.Unlock()
	if !p.dead {
		p.dead = true
		_ = p.cmd.Process.Kill()
		go p.cmd.Wait()
	}
}

// readSexp reads one line or one balanced s-expression.
func (p *proc) readSexp() (string, error) {
	var sb strings.Builder
	depth := 0
	inStr := false
	started := false
	for {
		b, err := p.out.ReadByte()
		if err != nil {
			return sb.String(), err
		}
		if !started && (b == '\n' || b == ' ' || b == '\r') {
			continue
		}
		started = true
		sb.WriteByte(b)
		if inStr {
			if b == '"' {
				inStr = false
			}
			continue
		}
		switch b {
		case '"':
			inStr = true
		case '(':
			depth++
		case ')':
			depth--
			if depth == 0 {
				return sb.String(), nil
			}
		case '\n':
			if depth == 0 {
				return strings.TrimSpace(sb.String()), nil
			}
		}
	}
}

type QueryResult struct {
	Res    string // sat unsat unknown
	Model  string // raw get-value output
	Solver string
	Dur    time.Duration
}

type Portfolio struct {
	specs []SolverSpec
	procs map[string]*proc
	mu    sync.Mutex
	// statistics
	Queries   int
	Time      time.Duration
	Wins      map[string]int
	dumpDir   string
	dumpCount int
	locks     map[string]*sync.Mutex
}

func NewPortfolio(names []string) *Portfolio {
	pf := &Portfolio{procs: map[string]*proc{}, Wins: map[string]int{}, dumpDir: os.Getenv("GOSMT_DUMP")}
	for _, n := range names {
		for _, s := range allSolvers {
			if s.Name == n {
				pf.specs = append(pf.specs, s)
			}
		}
	}
	return pf
}

func (pf *Portfolio) Close() {
	pf.mu.Lock()
	defer pf.mu.Unlock()
	for _, p := range pf.procs {
		p.kill()
	}
	pf.procs = map[string]*proc{}
}

func (pf *Portfolio) get(spec SolverSpec) *proc {
	pf.mu.Lock()
	defer pf.mu.Unlock()
	p := pf.procs[spec.Name]
	if p != nil && !p.dead {
		return p
	}
	p, err := startProc(spec)
	if err != nil {
		return nil
	}
	pf.procs[spec.Name] = p
	return p
}

// runOne sends the script to one solver and returns its answer.
func (pf *Portfolio) runOne(spec SolverSpec, script string, getValues string, timeoutMs int) QueryResult {
	t0 := time.Now()
	p := pf.get(spec)
	if p == nil {
		return QueryResult{Res: "unknown", Solver: spec.Name}
	}
	full := "(set-option :produce-models true)\n" + spec.TimeoutOpt(timeoutMs) + "\n(set-logic ALL)\n" + script + "(check-sat)\n"
	timer := time.AfterFunc(time.Duration(timeoutMs)*time.Millisecond+3*time.Second, p.kill)
	defer timer.Stop()
	fail := func() QueryResult {
		p.kill()
		return QueryResult{Res: "unknown", Solver: spec.Name, Dur: time.Since(t0)}
	}
	if _, err := io.WriteString(p.in, full); err != nil {
		return fail()
	}
	var ans string
	for {
		line, err := p.readSexp()
		if err != nil {
			return fail()
		}
		if line == "sat" || line == "unsat" || line == "unknown" || line == "timeout" {
			ans = line
			break
		}
		if strings.Contains(line, "error") {
			// an error anywhere makes this solver's answer unusable
			p.kill()
			if os.Getenv("GOSMT_SHOWERR") != "" {
				fmt.Fprintf(os.Stderr, "[%s] %s\n", spec.Name, line)
			}
			return QueryResult{Res: "unknown", Solver: spec.Name, Dur: time.Since(t0), Model: line}
		}
		// ignore other chatter (e.g. "success")
	}
	res := QueryResult{Res: ans, Solver: spec.Name}
	if ans == "timeout" {
		res.Res = "unknown"
	}
	if ans == "sat" && getValues != "" {
		if _, err := io.WriteString(p.in, "(get-value ("+getValues+"))\n"); err != nil {
			return fail()
		}
		m, err := p.readSexp()
		if err != nil {
			return fail()
		}
		if strings.HasPrefix(m, "(error") {
			p.kill()
			res.Res = "unknown"
			res.Dur = time.Since(t0)
			return res
		}
		res.Model = m
	}
	if _, err := io.WriteString(p.in, "(reset)\n"); err != nil {
		p.kill()
	}
	res.Dur = time.Since(t0)
	return res
}

// Check races the portfolio without killing losers: a solver still busy with an older query simply
// does not take part until it is done (its answer is discarded). First definite answer wins.
func (pf *Portfolio) Check(script, getValues string, timeoutMs int) QueryResult {
	t0 := time.Now()
	if pf.dumpDir != "" {
		pf.mu.Lock()
		pf.dumpCount++
		n := pf.dumpCount
		pf.mu.Unlock()
		_ = os.WriteFile(fmt.Sprintf("%s/q%05d.smt2", pf.dumpDir, n), []byte("(set-logic ALL)\n"+script+"(check-sat)\n(get-value ("+getValues+"))\n"), 0o644)
	}
	ch := make(chan QueryResult, len(pf.specs))
	var answered int32
	for _, s := range pf.specs {
		go func(s SolverSpec) {
			lk := pf.lockFor(s.Name)
			lk.Lock()
			defer lk.Unlock()
			if atomic.LoadInt32(&answered) != 0 {
				ch <- QueryResult{Res: "skipped", Solver: s.Name}
				return
			}
			ch <- pf.runOne(s, script, getValues, timeoutMs)
		}(s)
	}
	final := QueryResult{Res: "unknown"}
	watchdog := time.After(time.Duration(timeoutMs)*time.Millisecond + 15*time.Second)
loop:
	for got := 0; got < len(pf.specs); got++ {
		select {
		case r := <-ch:
			if r.Res == "sat" || r.Res == "unsat" {
				final = r
				atomic.StoreInt32(&answered, 1)
				break loop
			}
		case <-watchdog:
			// a solver ignored both its soft limit and the per-process kill timer: kill everything and give up
			atomic.StoreInt32(&answered, 1)
			pf.mu.Lock()
			for _, p := range pf.procs {
				p.kill()
			}
			pf.mu.Unlock()
			break loop
		}
	}
	pf.mu.Lock()
	pf.Queries++
	pf.Time += time.Since(t0)
	if final.Solver != "" {
		pf.Wins[final.Solver]++
	}
	pf.mu.Unlock()
	final.Dur = time.Since(t0)
	return final
}

func (pf *Portfolio) lockFor(name string) *sync.Mutex {
	pf.mu.Lock()
	defer pf.mu.Unlock()
	if pf.locks == nil {
		pf.locks = map[string]*sync.Mutex{}
	}
	l := pf.locks[name]
	if l == nil {
		l = &sync.Mutex{}
		pf.locks[name] = l
	}
	return l
}

// CheckAll runs every solver to completion (agreement sampling).
func (pf *Portfolio) CheckAll(script string, timeoutMs int) map[string]string {
	out := map[string]string{}
	var mu sync.Mutex
	var wg sync.WaitGroup
	for _, s := range pf.specs {
		wg.Add(1)
		go func(s SolverSpec) {
			defer wg.Done()
			lk := pf.lockFor(s.Name)
			lk.Lock()
			r := pf.runOne(s, script, "", timeoutMs)
			lk.Unlock()
			mu.Lock()
			out[s.Name] = r.Res
			mu.Unlock()
		}(s)
	}
	wg.Wait()
	return out
}
