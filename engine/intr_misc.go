// Intrinsics: errors, math/big, math, hashes, encoding/binary, hex, time.
package main

import (
	"encoding/hex"
	"fmt"
	"go/types"
	"math/big"

	"golang.org/x/tools/go/ssa"
)

// ---------- errors ----------

func errRoot(v Value) (root Value, chain []Value) {
	for i := 0; i < 64; i++ {
		iv, _ := v.(*IfaceVal)
		if iv == nil {
			return nil, chain
		}
		chain = append(chain, iv)
		if ev, ok := iv.V.(*ErrVal); ok && ev.Parent != nil {
			v = ev.Parent
			continue
		}
		return iv, chain
	}
	return nil, chain
}

func sameErr(a, b Value) bool {
	x, _ := a.(*IfaceVal)
	y, _ := b.(*IfaceVal)
	if x == nil || y == nil {
		return x == nil && y == nil
	}
	if px, ok := x.V.(*PtrVal); ok {
		if py, ok := y.V.(*PtrVal); ok {
			if px.L == py.L {
				return true
			}
			ex, _ := px.L.Extra.(*ErrVal)
			ey, _ := py.L.Extra.(*ErrVal)
			return ex != nil && ey != nil && ex.ID != "" && ex.ID == ey.ID
		}
		return false
	}
	ex, ok1 := x.V.(*ErrVal)
	ey, ok2 := y.V.(*ErrVal)
	if ok1 && ok2 {
		return ex == ey || (ex.ID != "" && ex.ID == ey.ID)
	}
	return identEq(a, b)
}

func errorsIs(err, target Value) bool {
	_, chain := errRoot(err)
	for _, c := range chain {
		if sameErr(c, target) {
			return true
		}
	}
	return false
}

func (e *Engine) errMethod(iv *IfaceVal, ev *ErrVal, name string, args []Value) Value {
	switch name {
	case "Error", "String":
		return StrConst("<error>")
	case "Unwrap":
		return ev.Parent
	case "Is":
		return BoolConst(errorsIs(iv, args[0]))
	case "Cause":
		r, _ := errRoot(iv)
		return r
	}
	panic(inconclusive{"method " + name + " on engine error"})
}

func wrapErr(parent Value) Value {
	if isNilVal(parent) {
		return nil
	}
	return &IfaceVal{V: &ErrVal{Parent: parent}}
}

// deepEq is reflect.DeepEqual on engine values: pointers are followed, slices compared element-wise (byte slices as
// byte strings: nil and empty are not distinguished), times by (seconds, nanoseconds).
func (e *Engine) deepEq(a, b Value, depth int) *T {
	if depth > 12 {
		panic(inconclusive{"reflect.DeepEqual: depth"})
	}
	if ia, ok := a.(*IfaceVal); ok {
		ib, ok2 := b.(*IfaceVal)
		if !ok2 || ia == nil || ib == nil {
			return BoolConst(isNilVal(a) && isNilVal(b))
		}
		if ia.T != nil && ib.T != nil && !types.Identical(ia.T, ib.T) {
			return tFalse
		}
		return e.deepEq(ia.V, ib.V, depth+1)
	}
	switch x := a.(type) {
	case *PtrVal:
		y, ok := b.(*PtrVal)
		if !ok || x == nil || y == nil {
			return BoolConst(isNilVal(a) && isNilVal(b))
		}
		if x.L == y.L {
			return tTrue
		}
		return e.deepEq(load(x.L), load(y.L), depth+1)
	case *StructVal:
		y, ok := b.(*StructVal)
		if !ok || len(x.F) != len(y.F) {
			return tFalse
		}
		r := tTrue
		for i := range x.F {
			r = And(r, e.deepEq(x.F[i], y.F[i], depth+1))
		}
		return r
	case *SliceVal:
		if y, ok := b.(*SliceVal); ok {
			if x == nil || y == nil {
				return BoolConst((x == nil || x.Len == 0) && (y == nil || y.Len == 0))
			}
			if x.Len != y.Len {
				return tFalse
			}
			r := tTrue
			for i := 0; i < x.Len; i++ {
				r = And(r, e.deepEq(load(x.Arr.Elems[x.Off+i]), load(y.Arr.Elems[y.Off+i]), depth+1))
			}
			return r
		}
		if t, ok := b.(*T); ok && t.Sort.K == SStr {
			return Eq(toSeq(a), t)
		}
		if b == nil {
			return BoolConst(x == nil || x.Len == 0)
		}
	case *T:
		if y, ok := b.(*T); ok {
			return Eq(x, y)
		}
		if x.Sort.K == SStr {
			return Eq(x, toSeq(b))
		}
	case nil:
		if t, ok := b.(*T); ok && t.Sort.K == SStr {
			return Eq(t, StrConst(""))
		}
		if sv, ok := b.(*SliceVal); ok {
			return BoolConst(sv == nil || sv.Len == 0)
		}
		return BoolConst(isNilVal(b))
	}
	return e.valueEq(a, b)
}

func init() {
	reg("reflect.DeepEqual", func(e *Engine, fn *ssa.Function, a []Value) Value { return e.deepEq(a[0], a[1], 0) })
	// reflect.TypeOf: a type identity that only supports == (dynamic type name boxed as an interface value)
	reg("reflect.TypeOf", func(e *Engine, fn *ssa.Function, a []Value) Value {
		iv, _ := a[0].(*IfaceVal)
		if iv == nil {
			return nil
		}
		return &IfaceVal{T: types.Typ[types.String], V: StrConst(typeKey(iv.T))}
	})
}

func init() {
	const em = "cosmossdk.io/errors."
	register := func(e *Engine, fn *ssa.Function, a []Value) Value {
		id := "registered-error"
		if cs, ok := goStr(a[0]); ok {
			if code, ok := constU64(a[1]); ok {
				id = fmt.Sprintf("%s/%d", cs, code)
			}
		}
		t := fn.Signature.Results().At(0).Type().(*types.Pointer).Elem()
		return &PtrVal{&Loc{T: t, Extra: &ErrVal{ID: id}}}
	}
	reg(em+"Register", register)
	reg(em+"RegisterWithGRPCCode", register)
	reg(em+"Wrap", func(e *Engine, fn *ssa.Function, a []Value) Value { return wrapErr(a[0]) })
	reg(em+"Wrapf", func(e *Engine, fn *ssa.Function, a []Value) Value { return wrapErr(a[0]) })
	reg(em+"IsOf", func(e *Engine, fn *ssa.Function, a []Value) Value {
		for _, l := range sliceElems(a[1]) {
			if errorsIs(a[0], load(l)) {
				return tTrue
			}
		}
		return tFalse
	})
	selfIface := func(fn *ssa.Function, recv Value) Value {
		return &IfaceVal{T: fn.Signature.Recv().Type(), V: recv}
	}
	reg("(*"+em+"Error).Wrap", func(e *Engine, fn *ssa.Function, a []Value) Value { return wrapErr(selfIface(fn, a[0])) })
	reg("(*"+em+"Error).Wrapf", func(e *Engine, fn *ssa.Function, a []Value) Value { return wrapErr(selfIface(fn, a[0])) })
	reg("(*"+em+"Error).Error", func(e *Engine, fn *ssa.Function, a []Value) Value { return StrConst("<error>") })
	reg("(*"+em+"Error).Is", func(e *Engine, fn *ssa.Function, a []Value) Value {
		return BoolConst(sameErr(selfIface(fn, a[0]), a[1]))
	})
	reg("(*"+em+"Error).ABCICode", func(e *Engine, fn *ssa.Function, a []Value) Value { return BVConst(1, 32) })
	reg("(*"+em+"Error).Codespace", func(e *Engine, fn *ssa.Function, a []Value) Value { return StrConst("<codespace>") })
	reg(em+"ABCIInfo", func(e *Engine, fn *ssa.Function, a []Value) Value {
		return Tuple{StrConst("<codespace>"), BVConst(1, 32), StrConst("<log>")}
	})
	reg("errors.Is", func(e *Engine, fn *ssa.Function, a []Value) Value { return BoolConst(errorsIs(a[0], a[1])) })
	reg("errors.New", func(e *Engine, fn *ssa.Function, a []Value) Value {
		msg, _ := goStr(a[0])
		return &IfaceVal{V: &ErrVal{ID: e.freshName("errors.New:" + msg)}}
	})
	reg("errors.Unwrap", func(e *Engine, fn *ssa.Function, a []Value) Value {
		if iv, _ := a[0].(*IfaceVal); iv != nil {
			if ev, ok := iv.V.(*ErrVal); ok {
				return ev.Parent
			}
		}
		return nil
	})
	reg("errors.Join", func(e *Engine, fn *ssa.Function, a []Value) Value {
		for _, l := range sliceElems(a[0]) {
			if v := load(l); !isNilVal(v) {
				return wrapErr(v)
			}
		}
		return nil
	})

	// ---------- math/big ----------
	bigOf := func(v Value) *T {
		p, _ := v.(*PtrVal)
		if p == nil {
			panic(&goPanic{msg: "nil *big.Int"})
		}
		if t, ok := p.L.Extra.(*T); ok {
			return t
		}
		return BVConst(0, 64)
	}
	setBig := func(e *Engine, v Value, t *T) Value {
		p := v.(*PtrVal)
		if e.inMerged > 0 && !e.localLocs[p.L] {
			panic(mergeAbort{"store to non-local (big.Int)"})
		}
		if old, ok := p.L.Extra.(*T); ok && !e.guard.IsTrue() && old.Sort == t.Sort {
			p.L.Extra = Ite(e.guard, t, old)
		} else {
			p.L.Extra = t
		}
		return p
	}
	toInt := func(t *T) *T {
		if t.Sort.K == SInt {
			return t
		}
		return BV2Int(t)
	}
	reg("(*math/big.Int).SetUint64", func(e *Engine, fn *ssa.Function, a []Value) Value { return setBig(e, a[0], a[1].(*T)) })
	reg("(*math/big.Int).SetInt64", func(e *Engine, fn *ssa.Function, a []Value) Value {
		return setBig(e, a[0], bvToIntSigned(a[1].(*T)))
	})
	reg("math/big.NewInt", func(e *Engine, fn *ssa.Function, a []Value) Value {
		l := e.newLoc(fn.Signature.Results().At(0).Type().(*types.Pointer).Elem())
		if e.localLocs != nil {
			e.markLocal(l)
		}
		l.Extra = bvToIntSigned(a[0].(*T))
		return &PtrVal{l}
	})
	reg("(*math/big.Int).Set", func(e *Engine, fn *ssa.Function, a []Value) Value { return setBig(e, a[0], bigOf(a[1])) })
	reg("(*math/big.Int).Cmp", func(e *Engine, fn *ssa.Function, a []Value) Value {
		x, y := bigOf(a[0]), bigOf(a[1])
		var lt, gt *T
		if x.Sort.K == SBV && y.Sort.K == SBV {
			lt, gt = BVCmp("bvult", x, y), BVCmp("bvugt", x, y)
		} else {
			lt, gt = IntCmp("<", toInt(x), toInt(y)), IntCmp(">", toInt(x), toInt(y))
		}
		return Ite(lt, BVConst(^uint64(0), 64), Ite(gt, BVConst(1, 64), BVConst(0, 64)))
	})
	reg("(*math/big.Int).Sign", func(e *Engine, fn *ssa.Function, a []Value) Value {
		x := bigOf(a[0])
		if x.Sort.K == SBV {
			return Ite(Eq(x, BVConst(0, 64)), BVConst(0, 64), BVConst(1, 64))
		}
		return Ite(IntCmp("<", x, IntConst(0)), BVConst(^uint64(0), 64), Ite(IntCmp(">", x, IntConst(0)), BVConst(1, 64), BVConst(0, 64)))
	})
	reg("(*math/big.Int).IsUint64", func(e *Engine, fn *ssa.Function, a []Value) Value {
		x := bigOf(a[0])
		if x.Sort.K == SBV {
			return tTrue
		}
		return And(IntCmp(">=", x, IntConst(0)), IntCmp("<", x, IntConstBig(new(big.Int).Lsh(big.NewInt(1), 64))))
	})
	reg("(*math/big.Int).Uint64", func(e *Engine, fn *ssa.Function, a []Value) Value {
		x := bigOf(a[0])
		if x.Sort.K == SBV {
			return x
		}
		return Int2BVraw(x, 64)
	})
	binBig := func(op func(x, y *T) *T) intrinsic {
		return func(e *Engine, fn *ssa.Function, a []Value) Value {
			return setBig(e, a[0], op(toInt(bigOf(a[1])), toInt(bigOf(a[2]))))
		}
	}
	reg("(*math/big.Int).Add", binBig(IntAdd))
	reg("(*math/big.Int).Sub", binBig(IntSub))
	reg("(*math/big.Int).Mul", binBig(IntMul))

	// ---------- math ----------
	reg("math.Ceil", func(e *Engine, fn *ssa.Function, a []Value) Value {
		return mk("fp.roundToIntegral RTP", FPS, a[0].(*T))
	})
	reg("math.Floor", func(e *Engine, fn *ssa.Function, a []Value) Value {
		return mk("fp.roundToIntegral RTN", FPS, a[0].(*T))
	})

	// ---------- hashes ----------
	arrOfStr := func(e *Engine, h *T, n int) Value {
		sv := &StructVal{F: make([]Value, n)}
		for i := 0; i < n; i++ {
			sv.F[i] = StrCodeBV8(StrAt(h, IntConst(int64(i))))
		}
		return sv
	}
	reg("crypto/sha256.Sum256", func(e *Engine, fn *ssa.Function, a []Value) Value {
		return arrOfStr(e, e.hashUF("sha256", toSeq(a[0]), 32), 32)
	})
	reg("github.com/cometbft/cometbft/crypto/tmhash.Sum", func(e *Engine, fn *ssa.Function, a []Value) Value {
		return e.hashUF("sha256", toSeq(a[0]), 32)
	})
	reg("github.com/ethereum/go-ethereum/crypto.Keccak256", func(e *Engine, fn *ssa.Function, a []Value) Value {
		var parts []*T
		for _, l := range sliceElems(a[0]) {
			parts = append(parts, toSeq(load(l)))
		}
		return e.hashUF("keccak256", Concat(parts...), 32)
	})

	// ---------- encoding/binary ----------
	putBE := func(e *Engine, dst Value, v *T, nbytes int) {
		d, _ := dst.(*SliceVal)
		if d == nil || d.Len < nbytes {
			if _, isSeq := dst.(*T); isSeq {
				panic(inconclusive{"BigEndian.Put into Seq-mode slice"})
			}
			e.goPanicf("BigEndian.Put: short buffer")
		}
		if e.inMerged > 0 && !e.localLocs[d.Arr] {
			panic(mergeAbort{"store to non-local (BigEndian.Put)"})
		}
		for i := 0; i < nbytes; i++ {
			hi := 8*(nbytes-i) - 1
			store(d.Arr.Elems[d.Off+i], BVExtract(hi, hi-7, v))
		}
	}
	getBE := func(e *Engine, src Value, nbytes int) *T {
		var bs []*T
		switch s := src.(type) {
		case *SliceVal:
			if s == nil || s.Len < nbytes {
				e.goPanicf("BigEndian.Uint: short buffer")
			}
			for i := 0; i < nbytes; i++ {
				bs = append(bs, load(s.Arr.Elems[s.Off+i]).(*T))
			}
		case *T:
			if !e.branch(IntCmp(">=", StrLen(s), IntConst(int64(nbytes)))) {
				e.goPanicf("BigEndian.Uint: short buffer")
			}
			if s.Op == "uf" && s.Name == "be64" && nbytes == 8 {
				return s.Args[0]
			}
			if ps := parts(s); nbytes == 8 && len(ps) > 0 && ps[0].Op == "uf" && ps[0].Name == "be64" {
				return ps[0].Args[0] // the first eight bytes spell this word
			}
			if !e.exactBE && nbytes == 8 {
				if c, ok := goStr(s); ok && len(c) >= 8 {
					var v uint64
					for i := 0; i < 8; i++ {
						v = v<<8 | uint64(c[i])
					}
					return BVConst(v, 64)
				}
				return UF("unbe64", BVS(64), StrSubstr(s, IntConst(0), IntConst(8)))
			}
			for i := 0; i < nbytes; i++ {
				bs = append(bs, StrCodeBV8(StrAt(s, IntConst(int64(i)))))
			}
		default:
			e.goPanicf("BigEndian.Uint: nil buffer")
		}
		// fuse extract chains back into the original word
		if w := fuseExtracts(bs); w != nil {
			return w
		}
		r := bs[0]
		for _, b := range bs[1:] {
			r = BVConcat(r, b)
		}
		return r
	}
	reg("(encoding/binary.bigEndian).PutUint64", func(e *Engine, fn *ssa.Function, a []Value) Value {
		putBE(e, a[1], a[2].(*T), 8)
		return nil
	})
	reg("(encoding/binary.bigEndian).PutUint32", func(e *Engine, fn *ssa.Function, a []Value) Value {
		putBE(e, a[1], a[2].(*T), 4)
		return nil
	})
	reg("(encoding/binary.bigEndian).Uint64", func(e *Engine, fn *ssa.Function, a []Value) Value { return getBE(e, a[1], 8) })
	reg("(encoding/binary.bigEndian).Uint32", func(e *Engine, fn *ssa.Function, a []Value) Value { return getBE(e, a[1], 4) })
	reg("(encoding/binary.bigEndian).AppendUint64", func(e *Engine, fn *ssa.Function, a []Value) Value {
		return e.appendOp(a[1], e.be64(a[2].(*T)), types.Typ[types.Uint8])
	})
	reg("github.com/cosmos/cosmos-sdk/types.Uint64ToBigEndian", func(e *Engine, fn *ssa.Function, a []Value) Value {
		return e.be64(a[0].(*T))
	})
	reg("github.com/cosmos/cosmos-sdk/types.BigEndianToUint64", func(e *Engine, fn *ssa.Function, a []Value) Value {
		switch s := a[0].(type) {
		case nil:
			return BVConst(0, 64)
		case *SliceVal:
			if s == nil || s.Len == 0 {
				return BVConst(0, 64)
			}
		case *T:
			if e.branch(Eq(s, StrConst(""))) {
				return BVConst(0, 64)
			}
		}
		return getBE(e, a[0], 8)
	})

	// ---------- hex ----------
	reg("encoding/hex.EncodeToString", func(e *Engine, fn *ssa.Function, a []Value) Value { return e.hexUF(toSeq(a[0]), false) })
	reg("encoding/hex.DecodeString", func(e *Engine, fn *ssa.Function, a []Value) Value {
		s := toSeq(a[0])
		if c, ok := goStr(s); ok {
			b, err := hex.DecodeString(c)
			if err != nil {
				return Tuple{nil, e.newErr("hex.DecodeString")}
			}
			return Tuple{StrConst(string(b)), nil}
		}
		if s.Op == "uf" && s.Name == "hexenc" {
			return Tuple{s.Args[0], nil}
		}
		ok := UF("hex_ok", BoolS, s)
		d := UF("hexdec", StrS, s)
		e.addAxiom(fmt.Sprintf("hexdec:%d", s.id), AndN(
			Implies(ok, Eq(IntMul(IntConst(2), mk("str.len", IntS, d)), StrLen(s))),
			Implies(ok, InRe(s, `(re.* (re.union (re.range "0" "9") (re.range "a" "f") (re.range "A" "F")))`)),
		))
		if e.branch(ok) {
			return Tuple{d, nil}
		}
		return Tuple{nil, e.newErr("hex.DecodeString")}
	})
}

// be64 gives the 8 big-endian bytes of a word: by default an abstract injective encoding (UF be64 with inverse
// unbe64 and fixed length 8); with verif.ExactBigEndian(true) the exact bytes as a Vec-mode slice.
func (e *Engine) be64(v *T) Value {
	if !e.exactBE {
		if v.IsConst() {
			var b [8]byte
			for i := 0; i < 8; i++ {
				b[i] = byte(v.BV >> uint(8*(7-i)))
			}
			return StrConst(string(b[:]))
		}
		t := UF("be64", StrS, v)
		t.FixLen = 8
		e.addAxiom(fmt.Sprintf("be64:%d", v.id), And(Eq(UF("unbe64", BVS(64), t), v), Eq(mk("str.len", IntS, t), IntConst(8))))
		return t
	}
	vals := make([]Value, 8)
	for i := 0; i < 8; i++ {
		hi := 8*(8-i) - 1
		vals[i] = BVExtract(hi, hi-7, v)
	}
	s := e.mkSlice(types.Typ[types.Uint8], vals)
	if e.localLocs != nil {
		e.markLocal(s.Arr)
	}
	return s
}

// fuseExtracts recognises [extract(63,56,w), extract(55,48,w), ...] and returns w.
func fuseExtracts(bs []*T) *T {
	n := len(bs)
	var base *T
	for i, b := range bs {
		hi := 8*(n-i) - 1
		want := fmt.Sprintf("(_ extract %d %d)", hi, hi-7)
		if b.Op != want || len(b.Args) != 1 {
			return nil
		}
		if base == nil {
			base = b.Args[0]
		} else if base != b.Args[0] {
			return nil
		}
	}
	if base != nil && base.Sort.W == 8*n {
		return base
	}
	return nil
}

func bvToIntSigned(t *T) *T {
	if t.IsConst() {
		return IntConst(t.SignedBV())
	}
	u := mk("bv2nat", IntS, t)
	two := IntConstBig(new(big.Int).Lsh(big.NewInt(1), uint(t.Sort.W)))
	return Ite(BVCmp("bvslt", t, BVConst(0, t.Sort.W)), IntSub(u, two), u)
}
