// World: sdk.Context, symbolic KV stores with cache-context semantics, read/write logs.
package main

import (
	"fmt"
	"sort"

	"golang.org/x/tools/go/ssa"
)

type MS struct {
	stores map[string]*T
	parent *MS
	id     int
	label  string // root stores: name of the context that owns them
}

type CtxVal struct {
	ms      *MS
	height  *T // BV64 (int64)
	timeSec  *T // BV64 unix seconds
	timeNsec *T // BV64 nanoseconds within the second
	chainID *T
	gas     Value // gas meter object (model-defined) or nil
	flags   map[string]*T
	vals    map[string]Value
}

type WriteRec struct {
	Store string
	Key   *T
	Val   *T // "" for delete
	Del   bool
	MS    int
	Label string
}

type World struct {
	e            *Engine
	msCount      int
	snaps        []*T
	readLog      []readEntry
	readKeys     map[int]bool
	decodeLog    []decodeEntry
	writes       []WriteRec
	choiceValues map[string]interface{}
	initial      map[string]*T
	ghost        map[string]Value
	calls        []CallRec
	chainRev     map[*T]*T // chain-id term -> revision (contexts made by NewCtx)
	intCells     map[*T]*T // value written by StSetInt -> the integer it encodes
	closed       map[string][]string // store -> key prefixes with no entry in the pre-state (verif.StClosePrefix)
}

type readEntry struct {
	store string
	key   *T
	init  *T // value in the initial (pre-state) array
}
type decodeEntry struct {
	bz     *T
	typ    string
	leaves []encLeaf
}

type CallRec struct {
	Name string
	Args []Value
}

func newWorld(e *Engine) *World {
	return &World{e: e, choiceValues: map[string]interface{}{}, readKeys: map[int]bool{}, initial: map[string]*T{}, chainRev: map[*T]*T{}, ghost: map[string]Value{}}
}

// modelTerms: extra terms whose model values are requested on sat (store reads).
func (w *World) modelTerms() []*T {
	var out []*T
	for _, r := range w.readLog {
		out = append(out, r.key, r.init)
	}
	for _, d := range w.decodeLog {
		out = append(out, d.bz)
		for _, l := range d.leaves {
			out = append(out, l.t)
		}
	}
	return out
}

func (w *World) rootArr(ms *MS, name string) *T {
	w.arr(ms, name)
	root := ms
	for root.parent != nil {
		root = root.parent
	}
	return w.initial[root.label+name]
}

func (w *World) newMS(parent *MS) *MS {
	w.msCount++
	ms := &MS{stores: map[string]*T{}, parent: parent, id: w.msCount}
	if parent != nil {
		for k, v := range parent.stores {
			ms.stores[k] = v
		}
	}
	return ms
}

func (w *World) arr(ms *MS, name string) *T {
	if a, ok := ms.stores[name]; ok {
		return a
	}
	// first touch of this store anywhere: one initial array per store name
	root := ms
	for root.parent != nil {
		root = root.parent
	}
	a, ok := root.stores[name]
	if !ok {
		a = Var("store0:"+root.label+name, ArrS)
		root.stores[name] = a
		w.initial[root.label+name] = a
	}
	for m := ms; m != nil && m != root; m = m.parent {
		if _, has := m.stores[name]; !has {
			m.stores[name] = a
		}
	}
	return ms.stores[name]
}

func (w *World) get(c *CtxVal, name string, key *T) *T {
	a := w.arr(c.ms, name)
	v := Select(a, key)
	if !w.readKeys[key.id] {
		w.readKeys[key.id] = true
		init := mk("select", StrS, w.rootArr(c.ms, name), key)
		w.readLog = append(w.readLog, readEntry{store: name, key: key, init: init})
		for _, p := range w.closed[name] {
			if pre := StrPrefixOf(StrConst(p), key); !pre.IsFalse() {
				w.e.addAxiom(fmt.Sprintf("closed:%s:%d:%s", name, key.id, p), Implies(pre, Eq(init, StrConst(""))))
			}
		}
	}
	return v
}

func (w *World) set(c *CtxVal, name string, key, val *T, del bool) {
	w.e.effect("store write")
	a := w.arr(c.ms, name)
	c.ms.stores[name] = Store(a, key, val)
	w.writes = append(w.writes, WriteRec{Store: name, Key: key, Val: val, Del: del, MS: c.ms.id})
}

func ctxOf(v Value) *CtxVal {
	switch x := v.(type) {
	case *CtxVal:
		return x
	case *IfaceVal:
		if x != nil {
			if c, ok := x.V.(*CtxVal); ok {
				return c
			}
		}
	}
	panic(inconclusive{fmt.Sprintf("context value expected, got %T", v)})
}

func (c *CtxVal) clone() *CtxVal {
	n := *c
	n.flags = map[string]*T{}
	for k, v := range c.flags {
		n.flags[k] = v
	}
	n.vals = map[string]Value{}
	for k, v := range c.vals {
		n.vals[k] = v
	}
	return &n
}

func (e *Engine) ctxMethod(c *CtxVal, name string, args []Value) Value {
	switch name {
	case "Value":
		return nil
	case "Done":
		return nil
	case "Err":
		return nil
	case "Deadline":
		return Tuple{&TimeVal{Sec: BVConst(0, 64), Nsec: BVConst(0, 64)}, tFalse}
	}
	panic(inconclusive{"context method " + name})
}

var opaqueMethods = map[string]intrinsic{}

func init() {
	const sc = "(github.com/cosmos/cosmos-sdk/types.Context)."
	pure := func(f func(e *Engine, c *CtxVal, a []Value) Value) intrinsic {
		return func(e *Engine, fn *ssa.Function, a []Value) Value {
			c := ctxOf(a[0])
			if c == nil {
				panic(inconclusive{"method on zero sdk.Context: " + fn.Name()})
			}
			return f(e, c, a)
		}
	}
	reg(vp+"NewCtx", func(e *Engine, fn *ssa.Function, a []Value) Value {
		w := e.world
		name := e.freshName("ctx")
		h := Var(name+".height", BVS(64))
		ts := Var(name+".timeSec", BVS(64))
		tn := Var(name+".timeNsec", BVS(64))
		// block height is a positive int64; block time lies between 1970 and 2262 (so that UnixNano() is representable)
		e.pc = append(e.pc, BVCmp("bvsgt", h, BVConst(0, 64)), BVCmp("bvult", ts, BVConst(9223372036, 64)), BVCmp("bvult", tn, billion))
		root := w.newMS(nil)
		if name != "ctx" {
			root.label = name + ":"
		}
		// chain ids have the revision format "chain-<rev>", rev >= 1
		rev := Var(name+".rev", BVS(64))
		e.pc = append(e.pc, BVCmp("bvuge", rev, BVConst(1, 64)))
		cid := Concat(StrConst("chain-"), e.decUF(rev))
		w.chainRev[cid] = rev
		return &CtxVal{ms: root, height: h, timeSec: ts, timeNsec: tn, chainID: cid, flags: map[string]*T{}, vals: map[string]Value{}}
	})
	reg("github.com/cosmos/cosmos-sdk/types.UnwrapSDKContext", func(e *Engine, fn *ssa.Function, a []Value) Value { return ctxOf(a[0]) })
	reg(sc+"BlockHeight", pure(func(e *Engine, c *CtxVal, a []Value) Value { return c.height }))
	reg(sc+"BlockTime", pure(func(e *Engine, c *CtxVal, a []Value) Value { return &TimeVal{Sec: c.timeSec, Nsec: c.timeNsec} }))
	reg(sc+"ChainID", pure(func(e *Engine, c *CtxVal, a []Value) Value { return c.chainID }))
	reg(sc+"Context", pure(func(e *Engine, c *CtxVal, a []Value) Value { return c }))
	reg(sc+"WithBlockHeight", pure(func(e *Engine, c *CtxVal, a []Value) Value { n := c.clone(); n.height = a[1].(*T); return n }))
	reg(sc+"WithBlockTime", pure(func(e *Engine, c *CtxVal, a []Value) Value { n := c.clone(); tv := a[1].(*TimeVal); n.timeSec, n.timeNsec = tv.Sec, tv.Nsec; return n }))
	reg(sc+"WithChainID", pure(func(e *Engine, c *CtxVal, a []Value) Value { n := c.clone(); n.chainID = a[1].(*T); return n }))
	reg(sc+"WithEventManager", pure(func(e *Engine, c *CtxVal, a []Value) Value { return c }))
	reg(sc+"WithGasMeter", pure(func(e *Engine, c *CtxVal, a []Value) Value { n := c.clone(); n.gas = a[1]; return n }))
	reg(sc+"GasMeter", pure(func(e *Engine, c *CtxVal, a []Value) Value {
		if c.gas == nil {
			return &IfaceVal{V: &OpaqueVal{Tag: "noop"}}
		}
		return c.gas
	}))
	flag := func(name string) intrinsic {
		return pure(func(e *Engine, c *CtxVal, a []Value) Value {
			if f, ok := c.flags[name]; ok {
				return f
			}
			return tFalse
		})
	}
	gasCfg := func(e *Engine, fn *ssa.Function, a []Value) Value { return e.zero(fn.Signature.Results().At(0).Type()) }
	reg(sc+"KVGasConfig", gasCfg)
	reg(sc+"TransientKVGasConfig", gasCfg)
	reg(sc+"IsCheckTx", flag("checkTx"))
	reg(sc+"IsReCheckTx", flag("reCheckTx"))
	reg(sc+"EventManager", pure(func(e *Engine, c *CtxVal, a []Value) Value {
		return &OpaqueVal{Tag: "noop"}
	}))
	reg(sc+"Logger", pure(func(e *Engine, c *CtxVal, a []Value) Value { return &IfaceVal{V: &OpaqueVal{Tag: "noop"}} }))
	reg(sc+"CacheContext", pure(func(e *Engine, c *CtxVal, a []Value) Value {
		e.effect("CacheContext")
		n := c.clone()
		n.ms = e.world.newMS(c.ms)
		child, parent := n.ms, c.ms
		write := &Closure{Intr: func(e *Engine, args []Value) Value {
			e.effect("cache write")
			for k, v := range child.stores {
				parent.stores[k] = v
			}
			return nil
		}}
		return Tuple{n, write}
	}))
	reg(vp+"SetCtxFlag", func(e *Engine, fn *ssa.Function, a []Value) Value {
		c := ctxOf(a[0]).clone()
		c.flags[constStr(a[1], "flag")] = a[2].(*T)
		return c
	})
	// event manager / logger no-ops
	for _, m := range []string{"EmitEvent", "EmitEvents", "EmitTypedEvent", "EmitTypedEvents"} {
		reg("(*github.com/cosmos/cosmos-sdk/types.EventManager)."+m, func(e *Engine, fn *ssa.Function, a []Value) Value {
			return e.zeroResults(fn)
		})
	}
	reg("(*github.com/cosmos/cosmos-sdk/types.EventManager).Events", func(e *Engine, fn *ssa.Function, a []Value) Value { return nil })
	reg("github.com/cosmos/cosmos-sdk/types.NewEvent", func(e *Engine, fn *ssa.Function, a []Value) Value { return e.zeroResults(fn) })
	reg("github.com/cosmos/cosmos-sdk/types.NewAttribute", func(e *Engine, fn *ssa.Function, a []Value) Value { return e.zeroResults(fn) })
	reg("(github.com/cosmos/cosmos-sdk/types.Event).AppendAttributes", func(e *Engine, fn *ssa.Function, a []Value) Value { return a[0] })

	// ---- store intrinsics ----
	reg(vp+"StGet", func(e *Engine, fn *ssa.Function, a []Value) Value {
		return e.world.get(ctxOf(a[0]), constStr(a[1], "store name"), toSeq(a[2]))
	})
	reg(vp+"StHas", func(e *Engine, fn *ssa.Function, a []Value) Value {
		return Not(Eq(e.world.get(ctxOf(a[0]), constStr(a[1], "store name"), toSeq(a[2])), StrConst("")))
	})
	reg(vp+"StSet", func(e *Engine, fn *ssa.Function, a []Value) Value {
		e.world.set(ctxOf(a[0]), constStr(a[1], "store name"), toSeq(a[2]), toSeq(a[3]), false)
		return nil
	})
	reg(vp+"StDel", func(e *Engine, fn *ssa.Function, a []Value) Value {
		e.world.set(ctxOf(a[0]), constStr(a[1], "store name"), toSeq(a[2]), StrConst(""), true)
		return nil
	})
	// Non-negative integer cells (bank-model balances): "" is zero, anything else is the canonical decimal of a positive
	// integer (representation invariant of the cell, asserted as a fact about every value read). No branching.
	reg(vp+"StGetInt", func(e *Engine, fn *ssa.Function, a []Value) Value {
		v := e.world.get(ctxOf(a[0]), constStr(a[1], "store name"), toSeq(a[2]))
		if x, ok := e.world.intCells[v]; ok {
			return mkInt(x)
		}
		x := UF("intdec", IntS, v)
		e.addAxiom(fmt.Sprintf("intcell:%d", v.id), Or(Eq(v, StrConst("")), And(Eq(UF("intenc", StrS, x), v), IntCmp(">", x, IntConst(0)))))
		return mkInt(Ite(Eq(v, StrConst("")), IntConst(0), x))
	})
	reg(vp+"StSetInt", func(e *Engine, fn *ssa.Function, a []Value) Value {
		x := intOfVal(a[3]).V
		var val *T
		if x.IsConst() {
			val = StrConst("")
			if x.Int.Sign() != 0 {
				val = StrConst(x.Int.String())
			}
		} else {
			enc := UF("intenc", StrS, x)
			e.addAxiom(fmt.Sprintf("intenc:%d", x.id), And(Eq(UF("intdec", IntS, enc), x), Not(Eq(enc, StrConst("")))))
			val = Ite(Eq(x, IntConst(0)), StrConst(""), enc)
		}
		if e.world.intCells == nil {
			e.world.intCells = map[*T]*T{}
		}
		e.world.intCells[val] = x
		e.world.set(ctxOf(a[0]), constStr(a[1], "store name"), toSeq(a[2]), val, false)
		return nil
	})
	reg(vp+"StSnapshot", func(e *Engine, fn *ssa.Function, a []Value) Value {
		e.effect("snapshot")
		w := e.world
		c := ctxOf(a[0])
		w.snaps = append(w.snaps, w.arr(c.ms, constStr(a[1], "store name")))
		return BVConst(uint64(len(w.snaps)-1), 64)
	})
	reg(vp+"StEqual", func(e *Engine, fn *ssa.Function, a []Value) Value {
		w := e.world
		cur := w.arr(ctxOf(a[0]).ms, constStr(a[1], "store name"))
		snap := w.snaps[constInt(a[2], "snapshot")]
		return arrEq(cur, snap)
	})
	reg(vp+"StEqualExcept", func(e *Engine, fn *ssa.Function, a []Value) Value {
		w := e.world
		cur := w.arr(ctxOf(a[0]).ms, constStr(a[1], "store name"))
		snap := w.snaps[constInt(a[2], "snapshot")]
		exp := snap
		for _, l := range sliceElems(a[3]) {
			k := toSeq(load(l))
			exp = Store(exp, k, Select(cur, k))
		}
		return arrEq(cur, exp)
	})
	reg(vp+"StSnapGet", func(e *Engine, fn *ssa.Function, a []Value) Value {
		return Select(e.world.snaps[constInt(a[0], "snapshot")], toSeq(a[1]))
	})
	reg(vp+"StWriteCount", func(e *Engine, fn *ssa.Function, a []Value) Value {
		return BVConst(uint64(len(e.world.writes)), 64)
	})
	reg(vp+"StWriteKey", func(e *Engine, fn *ssa.Function, a []Value) Value {
		return e.world.writes[constInt(a[0], "write index")].Key
	})
	reg(vp+"StWriteVal", func(e *Engine, fn *ssa.Function, a []Value) Value {
		return e.world.writes[constInt(a[0], "write index")].Val
	})
	reg(vp+"StWriteStore", func(e *Engine, fn *ssa.Function, a []Value) Value {
		return StrConst(e.world.writes[constInt(a[0], "write index")].Store)
	})
	// ghost call log
	reg(vp+"LogCall", func(e *Engine, fn *ssa.Function, a []Value) Value {
		e.effect("log call")
		var args []Value
		for _, l := range sliceElems(a[1]) {
			v := load(l)
			if iv, ok := v.(*IfaceVal); ok && iv != nil {
				v = iv.V
			}
			args = append(args, v)
		}
		e.world.calls = append(e.world.calls, CallRec{Name: constStr(a[0], "call name"), Args: args})
		return nil
	})
	reg(vp+"CallCount", func(e *Engine, fn *ssa.Function, a []Value) Value {
		n := 0
		name := constStr(a[0], "call name")
		for _, c := range e.world.calls {
			if c.Name == name {
				n++
			}
		}
		return BVConst(uint64(n), 64)
	})
	callArg := func(e *Engine, a []Value) Value {
		name := constStr(a[0], "call name")
		k, i := constInt(a[1], "call index"), constInt(a[2], "arg index")
		for _, c := range e.world.calls {
			if c.Name == name {
				if k == 0 {
					if i >= len(c.Args) {
						panic(inconclusive{"call arg index out of range"})
					}
					return c.Args[i]
				}
				k--
			}
		}
		panic(inconclusive{"no such logged call " + name})
	}
	reg(vp+"CallArgBytes", func(e *Engine, fn *ssa.Function, a []Value) Value { return toSeq(callArg(e, a)) })
	reg(vp+"CallArgString", func(e *Engine, fn *ssa.Function, a []Value) Value { return toSeq(callArg(e, a)) })
	reg(vp+"CallArgUint64", func(e *Engine, fn *ssa.Function, a []Value) Value { return callArg(e, a) })
}

// arrEq: equality of two store arrays; syntactically decided when both are the same chain.
func arrEq(a, b *T) *T {
	if a == b {
		return tTrue
	}
	return mk("=", BoolS, a, b)
}

func sortedStoreNames(m map[string]*T) []string {
	var ks []string
	for k := range m {
		ks = append(ks, k)
	}
	sort.Strings(ks)
	return ks
}
