// Operators, conversions, indexing, slices, maps, ranges, builtins.
package main

import (
	"fmt"
	"go/token"
	"go/types"

	"golang.org/x/tools/go/ssa"
)

func (e *Engine) unop(fr *frame, x *ssa.UnOp) Value {
	v := e.get(fr, x.X)
	switch x.Op {
	case token.MUL:
		p, _ := v.(*PtrVal)
		if p == nil {
			e.goPanicf("nil pointer dereference in %s", fr.fn)
		}
		return load(p.L)
	case token.NOT:
		return Not(v.(*T))
	case token.SUB:
		t := v.(*T)
		if t.Sort.K == SFP {
			return mk("fp.neg", FPS, t)
		}
		return BVNeg(t)
	case token.XOR:
		return BVNot(v.(*T))
	case token.ARROW:
		panic(inconclusive{"channel receive"})
	}
	panic(inconclusive{"unop " + x.Op.String()})
}

func identEq(a, b Value) bool {
	if isNilVal(a) || isNilVal(b) {
		return isNilVal(a) && isNilVal(b)
	}
	switch x := a.(type) {
	case *PtrVal:
		y, ok := b.(*PtrVal)
		return ok && x.L == y.L
	case *IfaceVal:
		y, ok := b.(*IfaceVal)
		if !ok {
			return false
		}
		ap, aok := x.V.(*PtrVal)
		bp, bok := y.V.(*PtrVal)
		if aok && bok {
			return ap.L == bp.L
		}
		return x.V == y.V
	}
	return a == b
}

// valueEq builds the equality condition of two Go values (==).
func (e *Engine) valueEq(a, b Value) *T {
	at, aT := a.(*T)
	bt, bT := b.(*T)
	if aT && bT {
		return Eq(at, bt)
	}
	// []byte(Seq) compared with nil
	if aT && isNilVal(b) && at.Sort.K == SStr {
		return Eq(at, StrConst(""))
	}
	if bT && isNilVal(a) && bt.Sort.K == SStr {
		return Eq(bt, StrConst(""))
	}
	switch x := a.(type) {
	case *StructVal:
		y, ok := b.(*StructVal)
		if !ok || len(x.F) != len(y.F) {
			return tFalse
		}
		r := tTrue
		for i := range x.F {
			r = And(r, e.valueEq(x.F[i], y.F[i]))
		}
		return r
	case *IfaceVal:
		y, ok := b.(*IfaceVal)
		if x == nil || !ok || y == nil {
			return BoolConst(identEq(a, b))
		}
		if x.T != nil && y.T != nil {
			if !types.Identical(x.T, y.T) {
				return tFalse
			}
			if _, isPtr := x.V.(*PtrVal); !isPtr {
				return e.valueEq(x.V, y.V)
			}
		}
		return BoolConst(identEq(a, b))
	case *TimeVal:
		if y, ok := b.(*TimeVal); ok {
			return And(Eq(x.Sec, y.Sec), Eq(x.Nsec, y.Nsec))
		}
	case *IntVal:
		if y, ok := b.(*IntVal); ok {
			return Eq(x.V, y.V)
		}
	}
	return BoolConst(identEq(a, b))
}

func (e *Engine) binop(op token.Token, a, b Value, xT, yT types.Type) Value {
	x, aT := a.(*T)
	y, bT := b.(*T)
	if !aT || !bT {
		switch op {
		case token.EQL:
			return e.valueEq(a, b)
		case token.NEQ:
			return Not(e.valueEq(a, b))
		}
		panic(inconclusive{fmt.Sprintf("binop %s on %T,%T", op, a, b)})
	}
	s := x.Sort
	signed := isSigned(xT)
	switch s.K {
	case SBool:
		switch op {
		case token.EQL:
			return Eq(x, y)
		case token.NEQ:
			return Not(Eq(x, y))
		case token.LAND, token.AND:
			return And(x, y)
		case token.LOR, token.OR:
			return Or(x, y)
		}
	case SStr:
		switch op {
		case token.EQL:
			return Eq(x, y)
		case token.NEQ:
			return Not(Eq(x, y))
		case token.ADD:
			return Concat(x, y)
		case token.LSS:
			return StrLt(x, y)
		case token.GTR:
			return StrLt(y, x)
		case token.LEQ:
			return Not(StrLt(y, x))
		case token.GEQ:
			return Not(StrLt(x, y))
		}
	case SFP:
		switch op {
		case token.QUO:
			return mk("fp.div RNE", FPS, x, y)
		case token.MUL:
			return mk("fp.mul RNE", FPS, x, y)
		case token.ADD:
			return mk("fp.add RNE", FPS, x, y)
		case token.SUB:
			return mk("fp.sub RNE", FPS, x, y)
		case token.LSS:
			return mk("fp.lt", BoolS, x, y)
		case token.LEQ:
			return mk("fp.leq", BoolS, x, y)
		case token.GTR:
			return mk("fp.gt", BoolS, x, y)
		case token.GEQ:
			return mk("fp.geq", BoolS, x, y)
		case token.EQL:
			return mk("fp.eq", BoolS, x, y)
		case token.NEQ:
			return Not(mk("fp.eq", BoolS, x, y))
		}
	case SBV:
		pick := func(u, sg string) string {
			if signed {
				return sg
			}
			return u
		}
		switch op {
		case token.SHL, token.SHR:
			// shift count may have a different width
			if y.Sort.W < s.W {
				y = BVZeroExt(y, s.W)
			} else if y.Sort.W > s.W {
				big := BVCmp("bvuge", y, BVConst(uint64(s.W), y.Sort.W))
				y = Ite(big, BVConst(uint64(s.W), s.W), BVExtract(s.W-1, 0, y))
			}
			if op == token.SHL {
				return BVBin("bvshl", x, y)
			}
			return BVBin(pick("bvlshr", "bvashr"), x, y)
		}
		if y.Sort != s {
			panic(inconclusive{fmt.Sprintf("binop %s width mismatch", op)})
		}
		switch op {
		case token.ADD:
			return BVBin("bvadd", x, y)
		case token.SUB:
			return BVBin("bvsub", x, y)
		case token.MUL:
			return BVBin("bvmul", x, y)
		case token.QUO, token.REM:
			if !(y.IsConst() && y.BV != 0) {
				if e.branch(Eq(y, BVConst(0, s.W))) {
					e.goPanicf("integer divide by zero")
				}
			}
			if op == token.QUO {
				return BVBin(pick("bvudiv", "bvsdiv"), x, y)
			}
			return BVBin(pick("bvurem", "bvsrem"), x, y)
		case token.AND:
			return BVBin("bvand", x, y)
		case token.OR:
			return BVBin("bvor", x, y)
		case token.XOR:
			return BVBin("bvxor", x, y)
		case token.AND_NOT:
			return BVBin("bvand", x, BVNot(y))
		case token.EQL:
			return Eq(x, y)
		case token.NEQ:
			return Not(Eq(x, y))
		case token.LSS:
			return BVCmp(pick("bvult", "bvslt"), x, y)
		case token.LEQ:
			return BVCmp(pick("bvule", "bvsle"), x, y)
		case token.GTR:
			return BVCmp(pick("bvugt", "bvsgt"), x, y)
		case token.GEQ:
			return BVCmp(pick("bvuge", "bvsge"), x, y)
		}
	}
	panic(inconclusive{"binop " + op.String() + " on " + s.SMT()})
}

func (e *Engine) convert(v Value, from, to types.Type) Value {
	t, ok := v.(*T)
	if !ok {
		// []byte(Vec) -> string
		if sv, isS := v.(*SliceVal); isS && isStringType(to) {
			return toSeq(sv)
		}
		if v == nil && isStringType(to) {
			return StrConst("")
		}
		return v
	}
	fs, fok := sortOf(from)
	ts, tok := sortOf(to)
	if t.Sort.K == SStr {
		if tok && ts.K == SStr || isByteSlice(to) {
			return t // string <-> []byte(Seq)
		}
		if _, isSl := to.Underlying().(*types.Slice); isSl {
			panic(inconclusive{"string -> []rune conversion"})
		}
	}
	if !fok || !tok {
		if isStringType(to) && fok && fs.K == SBV {
			// string(rune)
			if t.IsConst() && t.BV < 128 {
				return StrConst(string(rune(t.BV)))
			}
			panic(inconclusive{"string(symbolic rune)"})
		}
		return v
	}
	switch {
	case fs == ts:
		return t
	case fs.K == SBV && ts.K == SBV:
		if ts.W < fs.W {
			return BVExtract(ts.W-1, 0, t)
		}
		if isSigned(from) {
			return BVSignExt(t, ts.W)
		}
		return BVZeroExt(t, ts.W)
	case fs.K == SBV && ts.K == SFP:
		if isSigned(from) {
			return mk("(_ to_fp 11 53) RNE", FPS, t)
		}
		return mk("(_ to_fp_unsigned 11 53) RNE", FPS, t)
	case fs.K == SFP && ts.K == SBV:
		// out-of-range conversions are implementation-specific in Go: make them an explicit nondeterministic value
		var conv *T
		var inRange *T
		if isSigned(to) {
			conv = mk(fmt.Sprintf("(_ fp.to_sbv %d) RTZ", ts.W), ts, t)
			inRange = And(mk("fp.lt", BoolS, t, fpConst(9223372036854775808.0)), mk("fp.geq", BoolS, t, fpConst(-9223372036854775808.0)))
		} else {
			conv = mk(fmt.Sprintf("(_ fp.to_ubv %d) RTZ", ts.W), ts, t)
			inRange = And(mk("fp.lt", BoolS, t, fpConst(18446744073709551616.0)), mk("fp.gt", BoolS, t, fpConst(-1.0)))
		}
		if ts.W != 64 {
			return conv
		}
		return Ite(inRange, conv, e.Fresh("fp2int.oor", ts))
	case fs.K == SBV && ts.K == SStr:
		if t.IsConst() && t.BV < 128 {
			return StrConst(string(rune(t.BV)))
		}
		panic(inconclusive{"string(symbolic rune)"})
	}
	panic(inconclusive{"convert " + from.String() + " -> " + to.String()})
}

// ---------- indexing ----------

func (e *Engine) checkIndex(idx *T, n int, what string) int {
	if idx.IsConst() {
		i := int(idx.SignedBV())
		if i < 0 || i >= n {
			e.goPanicf("index out of range [%d] with length %d (%s)", i, n, what)
		}
		return i
	}
	// symbolic index into a concrete-length sequence: fork per position, plus the out-of-range panic path
	w := idx.Sort.W
	k := e.choose(n+1, func(i int) *T {
		if i == n {
			return BVCmp("bvuge", idx, BVConst(uint64(n), w))
		}
		return Eq(idx, BVConst(uint64(i), w))
	})
	if k == n {
		e.goPanicf("index out of range (symbolic) with length %d (%s)", n, what)
	}
	return k
}

func (e *Engine) indexAddr(fr *frame, x *ssa.IndexAddr) Value {
	idx := e.get(fr, x.Index).(*T)
	switch b := e.get(fr, x.X).(type) {
	case *PtrVal:
		if b == nil {
			e.goPanicf("nil array pointer in %s", fr.fn)
		}
		i := e.checkIndex(idx, len(b.L.Elems), fr.fn.String())
		return &PtrVal{b.L.Elems[i]}
	case *SliceVal:
		if b == nil {
			e.goPanicf("index of nil slice in %s", fr.fn)
		}
		i := e.checkIndex(idx, b.Len, fr.fn.String())
		return &PtrVal{b.Arr.Elems[b.Off+i]}
	case *T: // Seq-mode []byte
		return &PtrVal{&Loc{T: types.Typ[types.Uint8], Val: e.seqByte(b, idx, fr), RO: true}}
	case nil:
		e.goPanicf("index of nil slice in %s", fr.fn)
	}
	panic(inconclusive{fmt.Sprintf("IndexAddr on %T", e.get(fr, x.X))})
}

func (e *Engine) seqByte(s *T, idx *T, fr *frame) *T {
	var ii *T
	if idx.IsConst() {
		ii = IntConst(idx.SignedBV())
	} else {
		ii = BV2Int(idx)
	}
	inb := And(IntCmp(">=", ii, IntConst(0)), IntCmp("<", ii, StrLen(s)))
	if !e.branch(inb) {
		e.goPanicf("index out of range on byte string in %s", fr.fn)
	}
	return StrCodeBV8(StrAt(s, ii))
}

func (e *Engine) index(fr *frame, x *ssa.Index) Value {
	idx := e.get(fr, x.Index).(*T)
	switch b := e.get(fr, x.X).(type) {
	case *T: // string
		return e.seqByte(b, idx, fr)
	case *StructVal: // array value
		i := e.checkIndex(idx, len(b.F), fr.fn.String())
		return b.F[i]
	}
	panic(inconclusive{fmt.Sprintf("Index on %T", e.get(fr, x.X))})
}

func (e *Engine) sliceOp(fr *frame, x *ssa.Slice) Value {
	switch p := e.get(fr, x.X).(type) {
	case *PtrVal: // slicing *array
		n := len(p.L.Elems)
		lo, hi := 0, n
		if x.Low != nil {
			lo = constInt(e.get(fr, x.Low), "slice low")
		}
		if x.High != nil {
			hi = constInt(e.get(fr, x.High), "slice high")
		}
		if lo < 0 || hi > n || lo > hi {
			e.goPanicf("slice bounds out of range [%d:%d] of array %d", lo, hi, n)
		}
		return &SliceVal{Arr: p.L, Off: lo, Len: hi - lo, Cap: n - lo}
	case *SliceVal:
		if p == nil {
			return (*SliceVal)(nil)
		}
		lo, hi := 0, p.Len
		if x.Low != nil {
			lo = constInt(e.get(fr, x.Low), "slice low")
		}
		if x.High != nil {
			hi = constInt(e.get(fr, x.High), "slice high")
		}
		mx := p.Cap
		if x.Max != nil {
			mx = constInt(e.get(fr, x.Max), "slice max")
		}
		if lo < 0 || hi > p.Cap || lo > hi || mx > p.Cap || hi > mx {
			e.goPanicf("slice bounds out of range [%d:%d:%d] with capacity %d", lo, hi, mx, p.Cap)
		}
		return &SliceVal{Arr: p.Arr, Off: p.Off + lo, Len: hi - lo, Cap: mx - lo}
	case *T: // string or Seq-mode []byte
		n := StrLen(p)
		lo, hi := IntConst(0), n
		if x.Low != nil {
			lo = e.intOf(e.get(fr, x.Low).(*T))
		}
		if x.High != nil {
			hi = e.intOf(e.get(fr, x.High).(*T))
		}
		ok := AndN(IntCmp("<=", IntConst(0), lo), IntCmp("<=", lo, hi), IntCmp("<=", hi, n))
		if !e.branch(ok) {
			e.goPanicf("slice bounds out of range on string in %s", fr.fn)
		}
		return StrSubstr(p, lo, IntSub(hi, lo))
	case nil:
		return nil
	}
	panic(inconclusive{fmt.Sprintf("slice of %T", e.get(fr, x.X))})
}

// intOf gives the signed Int value of a BV term used as an index/length.
func (e *Engine) intOf(t *T) *T {
	if t.IsConst() {
		return IntConst(t.SignedBV())
	}
	if n, ok := intBacked(t); ok {
		return n
	}
	return mk("bv2nat", IntS, t)
}

// ---------- maps ----------

func (e *Engine) keyEq(a, b Value) *T { return e.valueEq(a, b) }

func (e *Engine) mapFind(m *MapVal, key Value) int {
	if m == nil {
		return -1
	}
	for i := len(m.Keys) - 1; i >= 0; i-- {
		if e.branch(e.keyEq(m.Keys[i], key)) {
			return i
		}
	}
	return -1
}

func (e *Engine) lookup(fr *frame, x *ssa.Lookup) Value {
	if s, ok := e.get(fr, x.X).(*T); ok { // string index via Lookup
		return e.seqByte(s, e.get(fr, x.Index).(*T), fr)
	}
	m, _ := e.get(fr, x.X).(*MapVal)
	key := e.get(fr, x.Index)
	elemT := x.X.Type().Underlying().(*types.Map).Elem()
	i := e.mapFind(m, key)
	if i >= 0 {
		if x.CommaOk {
			return Tuple{m.Vals[i], tTrue}
		}
		return m.Vals[i]
	}
	if x.CommaOk {
		return Tuple{e.zero(elemT), tFalse}
	}
	return e.zero(elemT)
}

func (e *Engine) mapUpdate(mv, key, val Value) {
	m, _ := mv.(*MapVal)
	if m == nil {
		e.goPanicf("assignment to entry in nil map")
	}
	e.effect("map update")
	i := e.mapFind(m, key)
	if i >= 0 {
		m.Vals[i] = val
		return
	}
	m.Keys = append(m.Keys, key)
	m.Vals = append(m.Vals, val)
}

// ---------- range ----------

type rangeIter struct {
	kind  string // map string
	keys  []Value
	vals  []Value
	pos   int
	str   *T
	order []int
}

func (e *Engine) rangeStart(fr *frame, x *ssa.Range) Value {
	switch v := e.get(fr, x.X).(type) {
	case *MapVal:
		e.effect("range")
		it := &rangeIter{kind: "map"}
		if v != nil {
			it.keys = append(it.keys, v.Keys...)
			it.vals = append(it.vals, v.Vals...)
		}
		n := len(it.keys)
		it.order = make([]int, n)
		for i := range it.order {
			it.order[i] = i
		}
		if e.permute && n > 1 {
			if n > 4 {
				panic(inconclusive{"map range permutation over more than 4 entries"})
			}
			perms := permutations(n)
			k := e.choose(len(perms), func(int) *T { return nil })
			it.order = perms[k]
		}
		return it
	case nil:
		return &rangeIter{kind: "map"}
	case *T:
		s, ok := goStr(v)
		if !ok {
			// symbolic string: iterate over a concrete length chosen by forking (bounded by unwind)
			n, known := seqLenConst(v)
			if !known {
				panic(inconclusive{"range over string of symbolic length"})
			}
			it := &rangeIter{kind: "symstr", str: v}
			for i := 0; i < n; i++ {
				it.keys = append(it.keys, BVConst(uint64(i), 64))
			}
			return it
		}
		it := &rangeIter{kind: "string"}
		for i, r := range s {
			it.keys = append(it.keys, BVConst(uint64(i), 64))
			it.vals = append(it.vals, BVConst(uint64(r), 32))
		}
		return it
	}
	panic(inconclusive{fmt.Sprintf("range over %T", e.get(fr, x.X))})
}

func permutations(n int) [][]int {
	var res [][]int
	var rec func(cur []int, used int)
	rec = func(cur []int, used int) {
		if len(cur) == n {
			res = append(res, append([]int{}, cur...))
			return
		}
		for i := 0; i < n; i++ {
			if used&(1<<uint(i)) == 0 {
				rec(append(cur, i), used|1<<uint(i))
			}
		}
	}
	rec(nil, 0)
	return res
}

func (e *Engine) rangeNext(fr *frame, x *ssa.Next) Value {
	it := e.get(fr, x.Iter).(*rangeIter)
	e.effect("next")
	tt := x.Type().(*types.Tuple)
	if it.pos >= len(it.keys) {
		return Tuple{tFalse, e.zeroTol(tt.At(1).Type()), e.zeroTol(tt.At(2).Type())}
	}
	i := it.pos
	it.pos++
	switch it.kind {
	case "map":
		j := it.order[i]
		return Tuple{tTrue, it.keys[j], it.vals[j]}
	case "symstr":
		b := StrCodeBV8(StrAt(it.str, IntConst(int64(i))))
		// ASCII only: bytes >= 0x80 are outside the claim
		e.pc = append(e.pc, BVCmp("bvult", b, BVConst(0x80, 8)))
		e.note("range over symbolic string: non-ASCII bytes are outside the claim")
		return Tuple{tTrue, it.keys[i], BVZeroExt(b, 32)}
	}
	return Tuple{tTrue, it.keys[i], it.vals[i]}
}

// ---------- builtins ----------

func (e *Engine) builtin(fr *frame, cc *ssa.CallCommon, f *ssa.Builtin, args []Value) Value {
	switch f.Name() {
	case "ssa:wrapnilchk":
		if isNilVal(args[0]) {
			e.goPanicf("nil receiver in method value")
		}
		return args[0]
	case "len":
		switch x := args[0].(type) {
		case nil:
			return BVConst(0, 64)
		case *T:
			return Int2BV(StrLen(x), 64)
		case *SliceVal:
			if x == nil {
				return BVConst(0, 64)
			}
			return BVConst(uint64(x.Len), 64)
		case *MapVal:
			if x == nil {
				return BVConst(0, 64)
			}
			return BVConst(uint64(e.mapLen(x)), 64)
		case *StructVal:
			return BVConst(uint64(len(x.F)), 64)
		case *PtrVal:
			return BVConst(uint64(len(x.L.Elems)), 64)
		}
	case "cap":
		switch x := args[0].(type) {
		case nil:
			return BVConst(0, 64)
		case *T:
			return Int2BV(StrLen(x), 64)
		case *SliceVal:
			if x == nil {
				return BVConst(0, 64)
			}
			return BVConst(uint64(x.Cap), 64)
		}
	case "append":
		st, _ := cc.Args[0].Type().Underlying().(*types.Slice)
		if st == nil {
			panic(inconclusive{"append on non-slice"})
		}
		return e.appendOp(args[0], args[1], st.Elem())
	case "copy":
		return e.copyOp(args[0], args[1])
	case "delete":
		m, _ := args[0].(*MapVal)
		if m == nil {
			return nil
		}
		e.effect("delete")
		i := e.mapFind(m, args[1])
		if i >= 0 {
			m.Keys = append(append([]Value{}, m.Keys[:i]...), m.Keys[i+1:]...)
			m.Vals = append(append([]Value{}, m.Vals[:i]...), m.Vals[i+1:]...)
		}
		return nil
	case "recover":
		if e.panicking == nil {
			return nil
		}
		p := e.panicking
		e.panicking = nil
		if p.val != nil {
			return p.val
		}
		return &IfaceVal{T: types.Typ[types.String], V: StrConst(p.msg)}
	case "min", "max":
		r := args[0].(*T)
		signed := isSigned(cc.Args[0].Type())
		for _, a := range args[1:] {
			t := a.(*T)
			var lt *T
			if signed {
				lt = BVCmp("bvslt", t, r)
			} else {
				lt = BVCmp("bvult", t, r)
			}
			if f.Name() == "max" {
				lt = Not(Or(lt, Eq(t, r)))
			}
			r = Ite(lt, t, r)
		}
		return r
	case "print", "println":
		return nil
	case "clear":
		if m, ok := args[0].(*MapVal); ok && m != nil {
			e.effect("clear")
			m.Keys, m.Vals = nil, nil
		}
		return nil
	}
	panic(inconclusive{"builtin " + f.Name()})
}

func (e *Engine) mapLen(m *MapVal) int { return len(m.Keys) }

func (e *Engine) appendOp(a, b Value, elemT types.Type) Value {
	isByte := false
	if bt, ok := elemT.Underlying().(*types.Basic); ok && bt.Kind() == types.Uint8 {
		isByte = true
	}
	if isByte {
		_, aSeq := a.(*T)
		_, bSeq := b.(*T)
		if aSeq || bSeq {
			return Concat(toSeq(a), toSeq(b))
		}
	}
	as, _ := a.(*SliceVal)
	bs, _ := b.(*SliceVal)
	na, nb := 0, 0
	if as != nil {
		na = as.Len
	}
	if bs != nil {
		nb = bs.Len
	}
	if nb == 0 {
		return a
	}
	if as != nil && na+nb <= as.Cap {
		// in place: writes into the shared backing array
		if e.inMerged > 0 && !e.localLocs[as.Arr] {
			panic(mergeAbort{"store to non-local (append in place)"})
		}
		vals := make([]Value, nb)
		for i := 0; i < nb; i++ {
			vals[i] = load(bs.Arr.Elems[bs.Off+i])
		}
		for i := 0; i < nb; i++ {
			store(as.Arr.Elems[as.Off+na+i], vals[i])
		}
		return &SliceVal{Arr: as.Arr, Off: as.Off, Len: na + nb, Cap: as.Cap}
	}
	arr := e.newLoc(types.NewArray(elemT, int64(na+nb)))
	if e.localLocs != nil {
		e.markLocal(arr)
	}
	for i := 0; i < na; i++ {
		store(arr.Elems[i], load(as.Arr.Elems[as.Off+i]))
	}
	for i := 0; i < nb; i++ {
		store(arr.Elems[na+i], load(bs.Arr.Elems[bs.Off+i]))
	}
	return &SliceVal{Arr: arr, Len: na + nb, Cap: na + nb}
}

func (e *Engine) copyOp(dst, src Value) Value {
	d, _ := dst.(*SliceVal)
	if d == nil {
		if _, isSeq := dst.(*T); isSeq {
			panic(inconclusive{"copy into Seq-mode byte slice"})
		}
		return BVConst(0, 64)
	}
	if e.inMerged > 0 && !e.localLocs[d.Arr] {
		panic(mergeAbort{"store to non-local (copy)"})
	}
	switch s := src.(type) {
	case *SliceVal:
		if s == nil {
			return BVConst(0, 64)
		}
		n := d.Len
		if s.Len < n {
			n = s.Len
		}
		vals := make([]Value, n)
		for i := 0; i < n; i++ {
			vals[i] = load(s.Arr.Elems[s.Off+i])
		}
		for i := 0; i < n; i++ {
			store(d.Arr.Elems[d.Off+i], vals[i])
		}
		return BVConst(uint64(n), 64)
	case *T:
		sl, known := seqLenConst(s)
		if !known {
			panic(inconclusive{"copy from byte string of symbolic length"})
		}
		n := d.Len
		if sl < n {
			n = sl
		}
		for i := 0; i < n; i++ {
			store(d.Arr.Elems[d.Off+i], StrCodeBV8(StrAt(s, IntConst(int64(i)))))
		}
		return BVConst(uint64(n), 64)
	case nil:
		return BVConst(0, 64)
	}
	panic(inconclusive{fmt.Sprintf("copy from %T", src)})
}
