// Store iteration. The symbolic stores are arrays, which cannot be enumerated; iteration is supported over key ranges
// the harness has declared closed (verif.StClosePrefix: no key with that prefix exists in the pre-state), so the keys in
// range are exactly those written on this path. The iterator decides membership, duplicates and order of those keys by
// forking on symbolic comparisons; big-endian encoded integers compare numerically.
package main

import (
	"fmt"

	"golang.org/x/tools/go/ssa"
)

func StrLess(a, b *T) *T {
	if a.IsConst() && b.IsConst() {
		return BoolConst(a.Str < b.Str)
	}
	if a == b {
		return tFalse
	}
	return mk("str.<", BoolS, a, b)
}

func parts(t *T) []*T {
	if t.Op == "str.++" {
		return t.Args
	}
	if t.IsConst() && t.Str == "" {
		return nil
	}
	return []*T{t}
}

func be64Arg(t *T) (*T, bool) {
	if t.Op == "uf" && t.Name == "be64" {
		return t.Args[0], true
	}
	if t.IsConst() && len(t.Str) == 8 {
		var v uint64
		for i := 0; i < 8; i++ {
			v = v<<8 | uint64(t.Str[i])
		}
		return BVConst(v, 64), true
	}
	return nil, false
}

// splitConst8 splits a leading constant part longer than 8 bytes so that fixed-width words line up.
func headWord(ps []*T) (*T, []*T, bool) {
	if len(ps) == 0 {
		return nil, nil, false
	}
	h := ps[0]
	if h.IsConst() && len(h.Str) > 8 {
		return StrConst(h.Str[:8]), append([]*T{StrConst(h.Str[8:])}, ps[1:]...), true
	}
	if _, ok := be64Arg(h); ok {
		return h, ps[1:], true
	}
	return nil, nil, false
}

// keyLess is the lexicographic (bytewise) order of two key terms.
func keyLess(a, b *T) *T {
	pa, pb := parts(a), parts(b)
	// strip a common prefix
	for len(pa) > 0 && len(pb) > 0 {
		x, y := pa[0], pb[0]
		if x == y {
			pa, pb = pa[1:], pb[1:]
			continue
		}
		if x.IsConst() && y.IsConst() {
			n := 0
			for n < len(x.Str) && n < len(y.Str) && x.Str[n] == y.Str[n] {
				n++
			}
			if n < len(x.Str) && n < len(y.Str) {
				return BoolConst(x.Str[n] < y.Str[n])
			}
			if n == 0 {
				break
			}
			pa = append([]*T{StrConst(x.Str[n:])}, pa[1:]...)
			pb = append([]*T{StrConst(y.Str[n:])}, pb[1:]...)
			if pa[0].Str == "" {
				pa = pa[1:]
			}
			if pb[0].Str == "" {
				pb = pb[1:]
			}
			continue
		}
		break
	}
	if len(pb) == 0 {
		return tFalse
	}
	if len(pa) == 0 {
		// a is a proper prefix of b unless the rest of b is empty
		return Not(Eq(Concat(pb...), StrConst("")))
	}
	// fixed-width big-endian words compare numerically
	if ha, ra, ok := headWord(pa); ok {
		if hb, rb, ok := headWord(pb); ok {
			x, _ := be64Arg(ha)
			y, _ := be64Arg(hb)
			rest := tFalse
			if len(ra) > 0 || len(rb) > 0 {
				rest = keyLess(Concat(ra...), Concat(rb...))
			}
			return Or(BVCmp("bvult", x, y), And(Eq(x, y), rest))
		}
	}
	return StrLess(Concat(pa...), Concat(pb...))
}

type iterEntry struct{ k, v *T }

// iterate returns the entries of store name visible from c with start <= key < end (end == nil: unbounded), ascending.
func (e *Engine) iterate(c *CtxVal, name string, start, end *T) []iterEntry {
	w := e.world
	closed := false
	for _, p := range w.closed[name] {
		if StrPrefixOf(StrConst(p), start).IsTrue() {
			if end == nil {
				panic(inconclusive{"iteration without an end bound"})
			}
			// the range must stay inside the closed prefix: end <= prefix's successor
			if end.IsConst() && end.Str <= prefixEnd(p) || StrPrefixOf(StrConst(p), end).IsTrue() {
				closed = true
			}
		}
	}
	if !closed {
		panic(inconclusive{fmt.Sprintf("iteration over a key range of store %q that the harness has not closed (verif.StClosePrefix): start %s", name, start)})
	}
	arr := w.arr(c.ms, name)
	var cand []*T
	seen := map[*T]bool{}
	for _, wr := range w.writes {
		if wr.Store != name || seen[wr.Key] {
			continue
		}
		seen[wr.Key] = true
		cand = append(cand, wr.Key)
	}
	var in []iterEntry
	for _, k := range cand {
		v := Select(arr, k)
		cond := AndN(Not(Eq(v, StrConst(""))), Not(keyLess(k, start)), keyLess(k, end))
		if !e.branch(cond) {
			continue
		}
		dup := false
		for _, x := range in {
			if e.branch(Eq(x.k, k)) {
				dup = true
				break
			}
		}
		if !dup {
			in = append(in, iterEntry{k, v})
		}
	}
	// insertion sort with symbolic comparisons
	for i := 1; i < len(in); i++ {
		for j := i; j > 0; j-- {
			if e.branch(keyLess(in[j].k, in[j-1].k)) {
				in[j], in[j-1] = in[j-1], in[j]
			} else {
				break
			}
		}
	}
	return in
}

// prefixEnd is the smallest string greater than every string with prefix p.
func prefixEnd(p string) string {
	b := []byte(p)
	for i := len(b) - 1; i >= 0; i-- {
		if b[i] != 0xff {
			b[i]++
			return string(b[:i+1])
		}
	}
	return "\xff\xff\xff\xff\xff\xff\xff\xff\xff\xff\xff\xff\xff\xff\xff\xff\xff\xff\xff\xff\xff\xff\xff\xff\xff\xff\xff\xff\xff\xff\xff\xff\xff"
}

func (e *Engine) newIter(c *CtxVal, name string, start, end *T, reverse bool, strip *T) Value {
	ents := e.iterate(c, name, start, end)
	if reverse {
		for i, j := 0, len(ents)-1; i < j; i, j = i+1, j-1 {
			ents[i], ents[j] = ents[j], ents[i]
		}
	}
	return &IfaceVal{V: &OpaqueVal{Tag: "iter", Data: map[string]Value{"ents": ents, "pos": 0, "strip": strip}}}
}

func iterSelf(a []Value) *OpaqueVal {
	switch x := a[0].(type) {
	case *OpaqueVal:
		return x
	case *IfaceVal:
		if ov, ok := x.V.(*OpaqueVal); ok {
			return ov
		}
	}
	panic(inconclusive{"iterator receiver"})
}

func init() {
	reg(vp+"StClosePrefix", func(e *Engine, fn *ssa.Function, a []Value) Value {
		name, p := constStr(a[1], "store name"), constStr(toSeq(a[2]), "closed prefix")
		if e.world.closed == nil {
			e.world.closed = map[string][]string{}
		}
		e.world.closed[name] = append(e.world.closed[name], p)
		return nil
	})
	reg(vp+"StIterator", func(e *Engine, fn *ssa.Function, a []Value) Value {
		var end *T
		if !isNilVal(a[3]) {
			end = toSeq(a[3])
			if end.IsConst() && end.Str == "" {
				end = nil
			}
		}
		return e.newIter(ctxOf(a[0]), constStr(a[1], "store name"), toSeq(a[2]), end, a[4].(*T).IsTrue(), nil)
	})
	cur := func(ov *OpaqueVal) (iterEntry, bool) {
		ents := ov.Data["ents"].([]iterEntry)
		pos := ov.Data["pos"].(int)
		if pos < len(ents) {
			return ents[pos], true
		}
		return iterEntry{}, false
	}
	opaqueMethods["iter.Valid"] = func(e *Engine, fn *ssa.Function, a []Value) Value {
		_, ok := cur(iterSelf(a))
		return BoolConst(ok)
	}
	opaqueMethods["iter.Next"] = func(e *Engine, fn *ssa.Function, a []Value) Value {
		ov := iterSelf(a)
		if _, ok := cur(ov); !ok {
			e.goPanicf("Next on an invalid iterator")
		}
		ov.Data["pos"] = ov.Data["pos"].(int) + 1
		return nil
	}
	opaqueMethods["iter.Key"] = func(e *Engine, fn *ssa.Function, a []Value) Value {
		ov := iterSelf(a)
		en, ok := cur(ov)
		if !ok {
			e.goPanicf("Key on an invalid iterator")
		}
		if strip, _ := ov.Data["strip"].(*T); strip != nil {
			n := StrLen(strip)
			return StrSubstr(en.k, n, IntSub(StrLen(en.k), n))
		}
		return en.k
	}
	opaqueMethods["iter.Value"] = func(e *Engine, fn *ssa.Function, a []Value) Value {
		en, ok := cur(iterSelf(a))
		if !ok {
			e.goPanicf("Value on an invalid iterator")
		}
		return en.v
	}
	opaqueMethods["iter.Close"] = func(e *Engine, fn *ssa.Function, a []Value) Value { return nil }
	opaqueMethods["iter.Error"] = func(e *Engine, fn *ssa.Function, a []Value) Value { return nil }

	// prefix store iteration: the parent's range [prefix+start, prefix+end) (end nil: the prefix's successor), keys stripped
	piter := func(reverse bool) intrinsic {
		return func(e *Engine, fn *ssa.Function, a []Value) Value {
			var ov *OpaqueVal
			switch x := a[0].(type) {
			case *OpaqueVal:
				ov = x
			case *IfaceVal:
				ov, _ = x.V.(*OpaqueVal)
			}
			if ov == nil {
				panic(inconclusive{"prefix store receiver"})
			}
			pfx := ov.Data["prefix"].(*T)
			if !pfx.IsConst() {
				panic(inconclusive{"iteration over a prefix store with a symbolic prefix"})
			}
			start := pfx
			if !isNilVal(a[1]) {
				start = Concat(pfx, toSeq(a[1]))
			}
			end := StrConst(prefixEnd(pfx.Str))
			if !isNilVal(a[2]) {
				if t := toSeq(a[2]); !(t.IsConst() && t.Str == "") {
					end = Concat(pfx, t)
				}
			}
			// find the root store the prefix store sits on
			parent := ov.Data["parent"]
			it := e.invokeByName(parent, map[bool]string{false: "Iterator", true: "ReverseIterator"}[reverse], start, end)
			if iv, ok := it.(*IfaceVal); ok {
				if io, ok := iv.V.(*OpaqueVal); ok && io.Tag == "iter" {
					prev, _ := io.Data["strip"].(*T)
					if prev != nil {
						io.Data["strip"] = Concat(prev, pfx)
					} else {
						io.Data["strip"] = pfx
					}
				}
			}
			return it
		}
	}
	opaqueMethods["prefixstore.Iterator"] = piter(false)
	opaqueMethods["prefixstore.ReverseIterator"] = piter(true)
	const pfx = "github.com/cosmos/cosmos-sdk/store/v2/prefix."
	for _, m := range []string{"Iterator", "ReverseIterator"} {
		reg("("+pfx+"GStore)."+m, opaqueMethods["prefixstore."+m])
		reg("("+pfx+"Store)."+m, opaqueMethods["prefixstore."+m])
	}
}
