// Store iteration. The symbolic stores are arrays, which cannot be enumerated; iteration is supported over key ranges
// the harness has declared closed (verif.StClosePrefix: no key with that prefix exists in the pre-state), so the keys in
// range are exactly those written on this path. The iterator decides membership, duplicates and order of those keys by
// forking on symbolic comparisons; big-endian encoded integers compare numerically.
package main

import (
	"fmt"
	"strings"

	"golang.org/x/tools/go/ssa"
)

func StrLess(a, b *T) *T {
	if a.IsConst() && b.IsConst() {
		return BoolConst(a.Str < b.Str)
	}
	if a == b {
		return tFalse
	}
	return mk("str.<", BoolS, a, b)
}

// byteOf recognises the one-byte string str.from_code(bv2nat(extract(hi, hi-7, x))) and returns (x, hi).
func byteOf(t *T) (*T, int, bool) {
	if t.Op != "str.from_code" || t.Args[0].Op != "bv2nat" {
		return nil, 0, false
	}
	b := t.Args[0].Args[0]
	var hi, lo int
	if n, _ := fmt.Sscanf(b.Op, "(_ extract %d %d)", &hi, &lo); n == 2 && hi-lo == 7 {
		return b.Args[0], hi, true
	}
	return nil, 0, false
}

// parts flattens a key into its concatenated pieces; eight consecutive bytes that spell a 64-bit value big-endian are
// folded into one be64 word (used for comparison only).
func parts(t *T) []*T {
	var ps []*T
	if t.Op == "str.++" {
		ps = t.Args
	} else if !(t.IsConst() && t.Str == "") {
		ps = []*T{t}
	}
	var out []*T
	for i := 0; i < len(ps); i++ {
		if x, hi, ok := byteOf(ps[i]); ok && hi == 63 && x.Sort.W == 64 && i+7 < len(ps) {
			word := true
			for j := 1; j < 8; j++ {
				y, h, ok := byteOf(ps[i+j])
				if !ok || y != x || h != 63-8*j {
					word = false
					break
				}
			}
			if word {
				w := UF("be64", StrS, x)
				w.FixLen = 8
				out = append(out, w)
				i += 7
				continue
			}
		}
		out = append(out, ps[i])
	}
	return out
}

// wordEq reduces the equality of two concatenations to bit-vector equalities when they have the same shape and differ
// only in big-endian words (or are decided by constants); ok is false when no such reduction applies.
func wordEq(a, b *T) (*T, bool) {
	pa, pb := parts(a), parts(b)
	// constants and decimal numerals only: equal strings have the same non-digit skeleton
	if sa, ok := skeleton(pa); ok {
		if sb, ok := skeleton(pb); ok && sa != sb {
			return tFalse, true
		}
	}
	if len(pa) != len(pb) {
		return nil, false
	}
	r := tTrue
	words := false
	for i := range pa {
		x, y := pa[i], pb[i]
		if x == y {
			continue
		}
		if x.IsConst() && y.IsConst() {
			if len(x.Str) == len(y.Str) {
				return tFalse, true
			}
			return nil, false
		}
		wx, okx := be64Arg(x)
		wy, oky := be64Arg(y)
		if okx && oky {
			r = And(r, Eq(wx, wy))
			words = true
			continue
		}
		// decimal numerals at the same position, delimited by the same constants containing a non-digit: digit strings
		// cannot absorb the delimiter, so the numerals are equal piecewise
		if x.Op == "uf" && x.Name == "dec" && y.Op == "uf" && y.Name == "dec" {
			delimited := func(ps []*T, i int) bool {
				return i+1 == len(ps) || ps[i+1].IsConst() && strings.IndexFunc(ps[i+1].Str, func(c rune) bool { return c < '0' || c > '9' }) >= 0
			}
			if delimited(pa, i) && delimited(pb, i) && (i+1 == len(pa) || pa[i+1] == pb[i+1]) {
				r = And(r, Eq(x.Args[0], y.Args[0]))
				words = true
				continue
			}
		}
		return nil, false
	}
	return r, words || r.IsConst()
}

// skeleton is the sequence of non-digit bytes of a concatenation of constants and decimal numerals.
func skeleton(ps []*T) (string, bool) {
	var sb strings.Builder
	for _, p := range ps {
		switch {
		case p.IsConst():
			for i := 0; i < len(p.Str); i++ {
				if c := p.Str[i]; c < '0' || c > '9' {
					sb.WriteByte(c)
				}
			}
		case p.Op == "uf" && p.Name == "dec":
		default:
			return "", false
		}
	}
	return sb.String(), true
}

// keyEq is equality of two key terms, word-wise where both spell big-endian words at the same position.
func keyEq(a, b *T) *T { return Eq(a, b) }

func be64Arg(t *T) (*T, bool) {
	if t.Op == "uf" && t.Name == "be64" {
		return t.Args[0], true
	}
	if t.IsConst() && len(t.Str) == 8 {
		var v uint64
		for i := 0; i < 8; i++ {
			v = v<<8 | uint64(t.Str[i])
		}
		return BVConst(v, 64), true
	}
	return nil, false
}

// splitConst8 splits a leading constant part longer than 8 bytes so that fixed-width words line up.
func headWord(ps []*T) (*T, []*T, bool) {
	if len(ps) == 0 {
		return nil, nil, false
	}
	h := ps[0]
	if h.IsConst() && len(h.Str) > 8 {
		return StrConst(h.Str[:8]), append([]*T{StrConst(h.Str[8:])}, ps[1:]...), true
	}
	if _, ok := be64Arg(h); ok {
		return h, ps[1:], true
	}
	return nil, nil, false
}

// keyLess is the lexicographic (bytewise) order of two key terms.
func keyLess(a, b *T) *T {
	pa, pb := parts(a), parts(b)
	// strip a common prefix
	for len(pa) > 0 && len(pb) > 0 {
		x, y := pa[0], pb[0]
		if x == y {
			pa, pb = pa[1:], pb[1:]
			continue
		}
		if x.IsConst() && y.IsConst() {
			n := 0
			for n < len(x.Str) && n < len(y.Str) && x.Str[n] == y.Str[n] {
				n++
			}
			if n < len(x.Str) && n < len(y.Str) {
				return BoolConst(x.Str[n] < y.Str[n])
			}
			if n == 0 {
				break
			}
			pa = append([]*T{StrConst(x.Str[n:])}, pa[1:]...)
			pb = append([]*T{StrConst(y.Str[n:])}, pb[1:]...)
			if pa[0].Str == "" {
				pa = pa[1:]
			}
			if pb[0].Str == "" {
				pb = pb[1:]
			}
			continue
		}
		break
	}
	if len(pb) == 0 {
		return tFalse
	}
	if len(pa) == 0 {
		// a is a proper prefix of b unless the rest of b is empty
		return Not(Eq(Concat(pb...), StrConst("")))
	}
	// fixed-width big-endian words compare numerically
	if ha, ra, ok := headWord(pa); ok {
		if hb, rb, ok := headWord(pb); ok {
			x, _ := be64Arg(ha)
			y, _ := be64Arg(hb)
			rest := tFalse
			if len(ra) > 0 || len(rb) > 0 {
				rest = keyLess(Concat(ra...), Concat(rb...))
			}
			return Or(BVCmp("bvult", x, y), And(Eq(x, y), rest))
		}
	}
	return StrLess(Concat(pa...), Concat(pb...))
}

type iterEntry struct{ k, v *T }

// iterate returns the entries of store name visible from c with start <= key < end (end == nil: unbounded), ascending.
func (e *Engine) iterate(c *CtxVal, name string, start, end *T) []iterEntry {
	w := e.world
	closed := false
	for _, p := range w.closed[name] {
		if StrPrefixOf(StrConst(p), start).IsTrue() {
			if end == nil {
				panic(inconclusive{"iteration without an end bound"})
			}
			// the range must stay inside the closed prefix: end <= prefix's successor
			if end.IsConst() && end.Str <= prefixEnd(p) || StrPrefixOf(StrConst(p), end).IsTrue() {
				closed = true
			}
		}
	}
	if !closed {
		panic(inconclusive{fmt.Sprintf("iteration over a key range of store %q that the harness has not closed (verif.StClosePrefix): start %s", name, start)})
	}
	arr := w.arr(c.ms, name)
	var cand []*T
	seen := map[*T]bool{}
	for _, wr := range w.writes {
		if wr.Store != name || seen[wr.Key] {
			continue
		}
		seen[wr.Key] = true
		cand = append(cand, wr.Key)
	}
	var in []iterEntry
	for _, k := range cand {
		v := Select(arr, k)
		cond := AndN(Not(Eq(v, StrConst(""))), Not(keyLess(k, start)), keyLess(k, end))
		if !e.branch(cond) {
			continue
		}
		dup := false
		for _, x := range in {
			if e.branch(keyEq(x.k, k)) {
				dup = true
				break
			}
		}
		if !dup {
			in = append(in, iterEntry{k, v})
		}
	}
	// insertion sort with symbolic comparisons
	for i := 1; i < len(in); i++ {
		for j := i; j > 0; j-- {
			if e.branch(keyLess(in[j].k, in[j-1].k)) {
				in[j], in[j-1] = in[j-1], in[j]
			} else {
				break
			}
		}
	}
	return in
}

// prefixEnd is the smallest string greater than every string with prefix p.
func prefixEnd(p string) string {
	b := []byte(p)
	for i := len(b) - 1; i >= 0; i-- {
		if b[i] != 0xff {
			b[i]++
			return string(b[:i+1])
		}
	}
	return "\xff\xff\xff\xff\xff\xff\xff\xff\xff\xff\xff\xff\xff\xff\xff\xff\xff\xff\xff\xff\xff\xff\xff\xff\xff\xff\xff\xff\xff\xff\xff\xff\xff"
}

func (e *Engine) newIter(c *CtxVal, name string, start, end *T, reverse bool, strip *T) Value {
	ents := e.iterate(c, name, start, end)
	if reverse {
		for i, j := 0, len(ents)-1; i < j; i, j = i+1, j-1 {
			ents[i], ents[j] = ents[j], ents[i]
		}
	}
	return &IfaceVal{V: &OpaqueVal{Tag: "iter", Data: map[string]Value{"ents": ents, "pos": 0, "strip": strip}}}
}

func iterSelf(a []Value) *OpaqueVal {
	switch x := a[0].(type) {
	case *OpaqueVal:
		return x
	case *IfaceVal:
		if ov, ok := x.V.(*OpaqueVal); ok {
			return ov
		}
	}
	panic(inconclusive{"iterator receiver"})
}

func init() {
	reg(vp+"StClosePrefix", func(e *Engine, fn *ssa.Function, a []Value) Value {
		name, p := constStr(a[1], "store name"), constStr(toSeq(a[2]), "closed prefix")
		if e.world.closed == nil {
			e.world.closed = map[string][]string{}
		}
		e.world.closed[name] = append(e.world.closed[name], p)
		return nil
	})
	reg(vp+"StIterator", func(e *Engine, fn *ssa.Function, a []Value) Value {
		var end *T
		if !isNilVal(a[3]) {
			end = toSeq(a[3])
			if end.IsConst() && end.Str == "" {
				end = nil
			}
		}
		return e.newIter(ctxOf(a[0]), constStr(a[1], "store name"), toSeq(a[2]), end, a[4].(*T).IsTrue(), nil)
	})
	cur := func(ov *OpaqueVal) (iterEntry, bool) {
		ents := ov.Data["ents"].([]iterEntry)
		pos := ov.Data["pos"].(int)
		if pos < len(ents) {
			return ents[pos], true
		}
		return iterEntry{}, false
	}
	opaqueMethods["iter.Valid"] = func(e *Engine, fn *ssa.Function, a []Value) Value {
		_, ok := cur(iterSelf(a))
		return BoolConst(ok)
	}
	opaqueMethods["iter.Next"] = func(e *Engine, fn *ssa.Function, a []Value) Value {
		ov := iterSelf(a)
		if _, ok := cur(ov); !ok {
			e.goPanicf("Next on an invalid iterator")
		}
		ov.Data["pos"] = ov.Data["pos"].(int) + 1
		return nil
	}
	opaqueMethods["iter.Key"] = func(e *Engine, fn *ssa.Function, a []Value) Value {
		ov := iterSelf(a)
		en, ok := cur(ov)
		if !ok {
			e.goPanicf("Key on an invalid iterator")
		}
		if strip, _ := ov.Data["strip"].(*T); strip != nil {
			n := StrLen(strip)
			return StrSubstr(en.k, n, IntSub(StrLen(en.k), n))
		}
		return en.k
	}
	opaqueMethods["iter.Value"] = func(e *Engine, fn *ssa.Function, a []Value) Value {
		en, ok := cur(iterSelf(a))
		if !ok {
			e.goPanicf("Value on an invalid iterator")
		}
		return en.v
	}
	opaqueMethods["iter.Close"] = func(e *Engine, fn *ssa.Function, a []Value) Value { return nil }
	opaqueMethods["iter.Error"] = func(e *Engine, fn *ssa.Function, a []Value) Value { return nil }

	// prefix store iteration: the parent's range [prefix+start, prefix+end) (end nil: the prefix's successor), keys stripped
	piter := func(reverse bool) intrinsic {
		return func(e *Engine, fn *ssa.Function, a []Value) Value {
			var ov *OpaqueVal
			switch x := a[0].(type) {
			case *OpaqueVal:
				ov = x
			case *IfaceVal:
				ov, _ = x.V.(*OpaqueVal)
			}
			if ov == nil {
				panic(inconclusive{"prefix store receiver"})
			}
			pfx := ov.Data["prefix"].(*T)
			if !pfx.IsConst() {
				panic(inconclusive{"iteration over a prefix store with a symbolic prefix"})
			}
			start := pfx
			if !isNilVal(a[1]) {
				start = Concat(pfx, toSeq(a[1]))
			}
			end := StrConst(prefixEnd(pfx.Str))
			if !isNilVal(a[2]) {
				if t := toSeq(a[2]); !(t.IsConst() && t.Str == "") {
					end = Concat(pfx, t)
				}
			}
			// find the root store the prefix store sits on
			parent := ov.Data["parent"]
			it := e.invokeByName(parent, map[bool]string{false: "Iterator", true: "ReverseIterator"}[reverse], start, end)
			if iv, ok := it.(*IfaceVal); ok {
				if io, ok := iv.V.(*OpaqueVal); ok && io.Tag == "iter" {
					prev, _ := io.Data["strip"].(*T)
					if prev != nil {
						io.Data["strip"] = Concat(prev, pfx)
					} else {
						io.Data["strip"] = pfx
					}
				}
			}
			return it
		}
	}
	opaqueMethods["prefixstore.Iterator"] = piter(false)
	opaqueMethods["prefixstore.ReverseIterator"] = piter(true)
	const pfx = "github.com/cosmos/cosmos-sdk/store/v2/prefix."
	for _, m := range []string{"Iterator", "ReverseIterator"} {
		reg("("+pfx+"GStore)."+m, opaqueMethods["prefixstore."+m])
		reg("("+pfx+"Store)."+m, opaqueMethods["prefixstore."+m])
	}
}
