// SSA interpreter: fork-by-replay plus opportunistic if-conversion of acyclic callees.
package main

import (
	"fmt"
	"os"
	"go/ast"
	"go/token"
	"go/types"
	"sort"
	"strings"
	"time"

	"golang.org/x/tools/go/ssa"
)

type intrinsic func(e *Engine, fn *ssa.Function, args []Value) Value

type Obligation struct {
	Harness string   `json:"harness"`
	Kind    string   `json:"kind"` // assert reach unwind nopanic
	Label   string   `json:"label"`
	Verdict string   `json:"verdict"` // unsat sat unknown
	Solver  string   `json:"solver,omitempty"`
	Ms      int64    `json:"ms"`
	Path    int      `json:"path"`
	Model   *CexModel `json:"model,omitempty"`
	Site    string   `json:"site,omitempty"`
}
type ModelMap map[string]interface{}

// CexModel is a solver counterexample in replayable form.
type CexModel struct {
	Vars    ModelMap     `json:"vars"`
	Reads   []ReadRec    `json:"reads,omitempty"`
	Decodes []DecodeRec  `json:"decodes,omitempty"`
}
type ReadRec struct {
	Store string `json:"store"`
	Key   string `json:"key"` // hex
	Val   string `json:"val"` // hex (abstract bytes when the value was decoded)
}
type DecodeRec struct {
	Bz     string   `json:"bz"` // hex of the abstract encoding
	Type   string   `json:"type"`
	Fields ModelMap `json:"fields"`
}

type Shared struct {
	prog      *ssa.Program
	allFuncs  map[string]*ssa.Function
	models    map[string]*ssa.Function // third-party name -> Go model
}

type Engine struct {
	sh        *Shared
	linkCache map[*ssa.Function]*ssa.Function
	noMerge   map[*ssa.Function]string
	topo      map[*ssa.Function][]*ssa.BasicBlock
	deferC    map[*ssa.Function]bool
	fnInfos   map[*ssa.Function]*fnInfo
	symCache  map[*T]map[string]bool
	pf        *Portfolio
	harness   string
	cfg       RunConfig
	pc        []*T
	axioms    []*T
	axiomSeen map[string]bool
	decisions []int
	pos       int
	work      [][]int
	guard     *T
	inMerged  int
	localLocs map[*Loc]bool
	globals   map[*ssa.Global]*Loc
	inited    map[*ssa.Package]bool
	tolerant  bool
	forceInit *ssa.Function
	panicking *goPanic
	freshN    map[string]int
	depth     int

	// world
	world *World

	// per-harness results
	obligs     []Obligation
	funcsSeen  map[string]bool
	notes      []string
	inconcl    []string
	stats      Stats
	pathNo     int
	noPanic    bool
	permute    bool
	reachSeen  map[string]bool
	failedLabels map[string]bool
	unknownLabels map[string]int
	abstractIDs   bool
	lightDec      bool
	abstractHops  bool
	reachPending map[string]string
	lastPanic  *goPanic
	collisionFree bool
	splitBound int
	decodeMayFail bool
	exactBE    bool
	exactDecLen bool
	repBounds  map[string][2]int
	ifaceCands map[string][]types.Type
	encInfo    map[*T]map[string]*T
	curSite    string
	curFn      *ssa.Function
	bypass     *ssa.Function
	curBlk     int
	sites      []string
	trace      bool
	assumeList map[string]bool
	pathLabels []string
	stubsUsed  map[string]bool
	deadline   time.Time
}

type Stats struct {
	Paths, Instrs, Merged, PanicPaths, Pruned int
	FeasN, FeasUnknown                       int
	FeasMs                                   int64
}

type RunConfig struct {
	BranchTimeoutMs int
	AssertTimeoutMs int
	MaxPaths        int
	MaxInstrs       int
	Unwind          int
	Merge           bool
	Slice           bool
	Thorough        bool
}

func (e *Engine) freshName(base string) string {
	n := e.freshN[base]
	e.freshN[base] = n + 1
	if n == 0 {
		return base
	}
	return fmt.Sprintf("%s#%d", base, n)
}

// Fresh makes a path-stable fresh variable: names are derived from the call order, which replays identically.
func (e *Engine) Fresh(base string, s Sort) *T { return Var(e.freshName(base), s) }

func (e *Engine) addAxiom(key string, t *T) {
	if e.axiomSeen[key] {
		return
	}
	e.axiomSeen[key] = true
	e.axioms = append(e.axioms, t)
}

func (e *Engine) effect(what string) {
	if e.inMerged > 0 {
		panic(mergeAbort{"effect " + what})
	}
}

// ---------- solver interface ----------

func (e *Engine) solve(extra []*T, wantModel bool, timeoutMs int, values []*T) (QueryResult, []string, []string) {
	as := make([]*T, 0, len(e.axioms)+len(e.pc)+len(extra))
	as = append(as, e.axioms...)
	as = append(as, e.pc...)
	as = append(as, extra...)
	if e.collisionFree {
		as = append(as, collisionAxioms(as)...)
	}
	script, names, evs := buildScript(as, values)
	gv := ""
	if wantModel {
		var qs []string
		for _, n := range names {
			qs = append(qs, quoteSym(n))
		}
		qs = append(qs, evs...)
		gv = strings.Join(qs, " ")
	}
	r := e.pf.Check(script, gv, timeoutMs)
	return r, names, evs
}

func (e *Engine) feasible(c *T) string {
	t0 := time.Now()
	var r QueryResult
	if e.cfg.Slice {
		as := append(e.slice(c), c)
		if e.collisionFree {
			as = append(as, collisionAxioms(as)...)
		}
		script, _, _ := buildScript(as, nil)
		r = e.pf.Check(script, "", e.cfg.BranchTimeoutMs)
	} else {
		r, _, _ = e.solve([]*T{c}, false, e.cfg.BranchTimeoutMs, nil)
	}
	e.stats.FeasN++
	e.stats.FeasMs += time.Since(t0).Milliseconds()
	if r.Res == "unknown" {
		e.stats.FeasUnknown++
	}
	return r.Res
}

// choose forks over n alternatives (concrete decision recorded in the path vector).
func (e *Engine) choose(n int, cond func(i int) *T) int {
	e.effect("fork")
	if e.pos < len(e.decisions) {
		d := e.decisions[e.pos]
		e.pos++
		if c := cond(d); c != nil {
			e.pc = append(e.pc, c)
		}
		return d
	}
	var ok []int
	for i := 0; i < n; i++ {
		c := cond(i)
		if c == nil || c.IsTrue() {
			ok = append(ok, i)
			continue
		}
		if c.IsFalse() {
			continue
		}
		if e.feasible(c) != "unsat" {
			ok = append(ok, i)
		} else {
			e.stats.Pruned++
		}
	}
	if len(ok) == 0 {
		panic(pathEnd{})
	}
	for _, alt := range ok[1:] {
		w := append(append([]int{}, e.decisions...), alt)
		e.work = append(e.work, w)
	}
	if e.trace && len(ok) > 1 && e.curFn != nil {
		fmt.Fprintf(os.Stderr, "  [choose p%d #%d x%d] near %s b%d\n", e.pathNo, len(e.decisions), len(ok), e.curFn.String(), e.curBlk)
	}
	d := ok[0]
	e.decisions = append(e.decisions, d)
	e.pos++
	if c := cond(d); c != nil {
		e.pc = append(e.pc, c)
	}
	return d
}

func (e *Engine) branch(c *T) bool {
	if c.IsTrue() {
		return true
	}
	if c.IsFalse() {
		return false
	}
	// already decided on this path?
	nc := Not(c)
	for i := len(e.pc) - 1; i >= 0; i-- {
		if e.pc[i] == c {
			return true
		}
		if e.pc[i] == nc {
			return false
		}
	}
	e.effect("branch")
	if e.pos < len(e.decisions) {
		d := e.decisions[e.pos]
		e.pos++
		if d == 1 {
			e.pc = append(e.pc, c)
		} else {
			e.pc = append(e.pc, Not(c))
		}
		return d == 1
	}
	rt := e.feasible(c)
	tOK := rt != "unsat"
	fOK := true
	if tOK {
		fOK = e.feasible(Not(c)) != "unsat"
	}
	if !tOK && !fOK {
		panic(pathEnd{})
	}
	if !tOK || !fOK {
		e.stats.Pruned++
	}
	d := 0
	if tOK {
		d = 1
	}
	if tOK && fOK {
		e.work = append(e.work, append(append([]int{}, e.decisions...), 0))
		if e.trace && e.curFn != nil {
			cs := c.String()
			if len(cs) > 160 {
				cs = cs[:160]
			}
			fmt.Fprintf(os.Stderr, "  [fork p%d #%d] %s b%d on %s\n", e.pathNo, len(e.decisions), e.curFn.String(), e.curBlk, cs)
		}
	}
	e.decisions = append(e.decisions, d)
	e.pos++
	if d == 1 {
		e.pc = append(e.pc, c)
	} else {
		e.pc = append(e.pc, Not(c))
	}
	return d == 1
}

// ---------- frames ----------

type deferred struct {
	fn   Value
	args []Value
	cc   *ssa.CallCommon
}

type frame struct {
	fn     *ssa.Function
	env    map[ssa.Value]Value
	prev   *ssa.BasicBlock
	defers []deferred
	free   []Value
	visits map[*ssa.BasicBlock]int
}

func (e *Engine) get(fr *frame, v ssa.Value) Value {
	switch x := v.(type) {
	case *ssa.Const:
		return e.constVal(x)
	case *ssa.Function:
		return &Closure{Fn: x}
	case *ssa.Global:
		return &PtrVal{e.globalLoc(x)}
	case *ssa.Builtin:
		return x
	case *ssa.FreeVar:
		for i, fv := range fr.fn.FreeVars {
			if fv == x {
				return fr.free[i]
			}
		}
	}
	val, ok := fr.env[v]
	if !ok {
		panic(inconclusive{"unbound " + v.Name() + " in " + fr.fn.String()})
	}
	return val
}

func (e *Engine) globalLoc(x *ssa.Global) *Loc {
	if l, ok := e.globals[x]; ok {
		return l
	}
	e.ensureInit(x.Pkg)
	l, ok := e.globals[x]
	if !ok {
		l = e.newLoc(x.Type().(*types.Pointer).Elem())
		if mkv, ok := thirdPartyGlobals[x.String()]; ok {
			l.Val = mkv(e)
		}
		e.globals[x] = l
	}
	return l
}

func hasBodies(p *ssa.Package) bool {
	f := p.Func("init")
	return f != nil && f.Blocks != nil
}

// ensureInit runs a source-loaded package's initializer once per path, in tolerant mode.
func (e *Engine) ensureInit(p *ssa.Package) {
	if p == nil || e.inited[p] || !hasBodies(p) {
		return
	}
	e.inited[p] = true
	f := p.Func("init")
	saveTol, saveMerged, saveGuard, saveLocal := e.tolerant, e.inMerged, e.guard, e.localLocs
	e.tolerant, e.inMerged, e.guard, e.localLocs = true, 0, tTrue, nil
	func() {
		defer func() {
			if r := recover(); r != nil {
				switch x := r.(type) {
				case inconclusive:
					e.note("init " + p.Pkg.Path() + ": " + x.msg)
				case mergeAbort:
				case *goPanic:
					e.note("init " + p.Pkg.Path() + ": panic " + x.msg)
				default:
					panic(r)
				}
			}
		}()
		e.forceInit = f
		e.call(f, nil)
	}()
	e.tolerant, e.inMerged, e.guard, e.localLocs = saveTol, saveMerged, saveGuard, saveLocal
}

func (e *Engine) note(s string) {
	for _, n := range e.notes {
		if n == s {
			return
		}
	}
	e.notes = append(e.notes, s)
}

// normName strips type-argument lists from a function name: slices.Contains[[]string string] -> slices.Contains
func normName(s string) string {
	if !strings.Contains(s, "[") {
		return s
	}
	var sb strings.Builder
	depth := 0
	for i := 0; i < len(s); i++ {
		c := s[i]
		if c == '[' {
			// "[]" of a slice type inside a receiver is kept only at depth 0 when followed by ']' immediately
			if depth == 0 && i+1 < len(s) && s[i+1] == ']' {
				sb.WriteString("[]")
				i++
				continue
			}
			depth++
			continue
		}
		if c == ']' && depth > 0 {
			depth--
			continue
		}
		if depth == 0 {
			sb.WriteByte(c)
		}
	}
	return sb.String()
}

func (e *Engine) linkname(fn *ssa.Function) *ssa.Function {
	if t, ok := e.linkCache[fn]; ok {
		return t
	}
	var res *ssa.Function
	if fd, ok := fn.Syntax().(*ast.FuncDecl); ok && fd.Doc != nil {
		for _, c := range fd.Doc.List {
			f := strings.Fields(c.Text)
			if len(f) == 3 && f[0] == "//go:linkname" {
				res = e.sh.allFuncs[linknameToSSA(f[2])]
			}
		}
	}
	e.linkCache[fn] = res
	return res
}

// linknameToSSA converts pkg.(*T).m / pkg.T.m / pkg.f into ssa.Function.String() form.
func linknameToSSA(tgt string) string {
	if i := strings.Index(tgt, ".(*"); i >= 0 {
		j := strings.Index(tgt[i:], ")")
		return "(*" + tgt[:i] + "." + tgt[i+3:i+j] + ")" + tgt[i+j+1:]
	}
	slash := strings.LastIndex(tgt, "/")
	parts := strings.Split(tgt[slash+1:], ".")
	if len(parts) == 3 {
		return "(" + tgt[:slash+1] + parts[0] + "." + parts[1] + ")." + parts[2]
	}
	return tgt
}

func (e *Engine) zeroResults(fn *ssa.Function) Value {
	res := fn.Signature.Results()
	zn := func(t types.Type) (v Value) {
		defer func() {
			if r := recover(); r != nil {
				v = nil
			}
		}()
		return e.zero(t)
	}
	switch res.Len() {
	case 0:
		return nil
	case 1:
		return zn(res.At(0).Type())
	}
	var t Tuple
	for i := 0; i < res.Len(); i++ {
		t = append(t, zn(res.At(i).Type()))
	}
	return t
}

// ---------- calls ----------

func (e *Engine) call(fn *ssa.Function, args []Value) Value { return e.callFree(fn, args, nil) }

type fnInfo struct {
	name  string
	norm  string
	intr  intrinsic
	model *ssa.Function
}

func (e *Engine) info(fn *ssa.Function) *fnInfo {
	if fi, ok := e.fnInfos[fn]; ok {
		return fi
	}
	fi := &fnInfo{name: fn.String()}
	fi.norm = normName(fi.name)
	fi.intr = lookupIntrinsic(fi.name)
	if m, ok := e.sh.models[fi.norm]; ok && m != fn {
		fi.model = m
	}
	e.fnInfos[fn] = fi
	return fi
}

// callBody executes fn's own body, bypassing intrinsics/models registered for it.
func (e *Engine) callBody(fn *ssa.Function, args []Value) Value {
	e.bypass = fn
	return e.callFree(fn, args, nil)
}

func (e *Engine) callFree(fn *ssa.Function, args []Value, free []Value) Value {
	fi := e.info(fn)
	if e.bypass == fn {
		e.bypass = nil
		saved := *fi
		fi = &saved
		fi.intr, fi.model = nil, nil
	}
	name := fi.name
	if fi.intr != nil {
		e.stubsUsed[fi.norm] = true
		return fi.intr(e, fn, args)
	}
	if fi.model != nil {
		e.stubsUsed["model:"+fi.norm] = true
		return e.call(fi.model, args)
	}
	if envNoop(name, fn) {
		return e.zeroResults(fn)
	}
	if strings.HasPrefix(name, "(*") && fn.Synthetic != "" && len(args) > 0 {
		// pointer-receiver wrapper of a value-receiver method that has a model or intrinsic
		vname := "(" + name[2:]
		if p, ok := args[0].(*PtrVal); ok && p != nil {
			if in := lookupIntrinsic(vname); in != nil {
				e.stubsUsed[normName(vname)] = true
				return in(e, fn, append([]Value{load(p.L)}, args[1:]...))
			}
			if m, ok := e.sh.models[normName(vname)]; ok {
				e.stubsUsed["model:"+normName(vname)] = true
				return e.call(m, append([]Value{load(p.L)}, args[1:]...))
			}
		}
	}
	if fn.Blocks == nil {
		if tgt := e.linkname(fn); tgt != nil {
			return e.call(tgt, args)
		}
		if e.tolerant {
			return e.zeroResults(fn)
		}
		panic(inconclusive{"unmodelled external callee " + name})
	}
	if fn.Pkg != nil && fn.Name() == "init" && fn == fn.Pkg.Func("init") && e.forceInit != fn {
		e.ensureInit(fn.Pkg)
		return nil
	}
	if e.forceInit == fn {
		e.forceInit = nil
	}
	e.depth++
	if e.depth > 400 {
		panic(inconclusive{"call depth exceeded at " + name})
	}
	defer func() { e.depth-- }()
	isHarness := strings.HasPrefix(fn.Name(), "Harness")
	if e.cfg.Merge && !e.tolerant && !isHarness && e.noMerge[fn] == "" && !e.hasDefer(fn) {
		e.funcsSeen[name] = true
		v, ok, why := e.callMerged(fn, args, free)
		if ok {
			return v
		}
		if structuralAbort(why) {
			e.noMerge[fn] = why
		}
		if e.inMerged > 0 {
			panic(mergeAbort{"nested unmergeable callee " + name + ": " + why})
		}
	} else if e.inMerged > 0 {
		panic(mergeAbort{"nested unmergeable callee " + name})
	}
	e.funcsSeen[name] = true
	return e.callFork(fn, args, free)
}

func (e *Engine) hasDefer(fn *ssa.Function) bool {
	if v, ok := e.deferC[fn]; ok {
		return v
	}
	r := fn.Recover != nil
	for _, b := range fn.Blocks {
		for _, in := range b.Instrs {
			if _, ok := in.(*ssa.Defer); ok {
				r = true
			}
		}
	}
	e.deferC[fn] = r
	return r
}

func structuralAbort(why string) bool {
	return strings.HasPrefix(why, "loop") || strings.HasPrefix(why, "effect") || strings.HasPrefix(why, "store to non-local") ||
		strings.HasPrefix(why, "tuple") || strings.HasPrefix(why, "panic") || strings.HasPrefix(why, "instr") || strings.HasPrefix(why, "nested") ||
		strings.HasPrefix(why, "defer")
}

func (e *Engine) callFork(fn *ssa.Function, args []Value, free []Value) (ret Value) {
	fr := &frame{fn: fn, env: make(map[ssa.Value]Value, 16), free: free, visits: map[*ssa.BasicBlock]int{}}
	if len(args) != len(fn.Params) {
		panic(inconclusive{fmt.Sprintf("arity mismatch calling %s: %d args for %d params", fn, len(args), len(fn.Params))})
	}
	for i, p := range fn.Params {
		fr.env[p] = args[i]
	}
	start := fn.Blocks[0]
	if !e.hasDefer(fn) {
		return e.runBlocks(fr, start)
	}
	// function with defers: Go panics are caught here so deferred calls run
	func() {
		defer func() {
			if r := recover(); r != nil {
				gp, ok := r.(*goPanic)
				if !ok {
					panic(r)
				}
				e.panicking = gp
				e.runDefers(fr)
				if e.panicking != nil {
					p := e.panicking
					e.panicking = nil
					panic(p)
				}
				// recovered: continue at the recover block
				if fn.Recover == nil {
					ret = e.zeroResults(fn)
				} else {
					ret = e.runBlocks(fr, fn.Recover)
				}
			}
		}()
		ret = e.runBlocks(fr, start)
	}()
	return ret
}

func (e *Engine) runDefers(fr *frame) {
	for len(fr.defers) > 0 {
		d := fr.defers[len(fr.defers)-1]
		fr.defers = fr.defers[:len(fr.defers)-1]
		saved := e.panicking
		e.applyValue(fr, d.cc, d.fn, d.args)
		_ = saved
	}
}

func (e *Engine) runBlocks(fr *frame, blk *ssa.BasicBlock) Value {
	fn := fr.fn
	name := fn.String()
	for {
		fr.visits[blk]++
		if fr.visits[blk] > e.cfg.Unwind {
			e.unwindExceeded(fn, blk)
		}
		var next *ssa.BasicBlock
		for _, in := range blk.Instrs {
			e.stats.Instrs++
			if e.stats.Instrs > e.cfg.MaxInstrs {
				panic(inconclusive{"instruction budget exceeded"})
			}
			switch x := in.(type) {
			case *ssa.Phi:
				for i, p := range blk.Preds {
					if p == fr.prev {
						fr.env[x] = e.get(fr, x.Edges[i])
					}
				}
			case *ssa.Alloc:
				fr.env[x] = &PtrVal{e.newLoc(x.Type().(*types.Pointer).Elem())}
			case *ssa.Store:
				p, _ := e.get(fr, x.Addr).(*PtrVal)
				if p == nil {
					e.goPanicf("nil pointer dereference (store) in %s", name)
				}
				store(p.L, e.get(fr, x.Val))
			case *ssa.Call:
				fr.env[x] = e.doCall(fr, &x.Call)
			case *ssa.If:
				c := e.get(fr, x.Cond).(*T)
				e.curFn, e.curBlk = fn, blk.Index
				if e.branch(c) {
					next = blk.Succs[0]
				} else {
					next = blk.Succs[1]
				}
			case *ssa.Jump:
				next = blk.Succs[0]
			case *ssa.Return:
				switch len(x.Results) {
				case 0:
					return nil
				case 1:
					return e.get(fr, x.Results[0])
				default:
					t := make(Tuple, len(x.Results))
					for i, r := range x.Results {
						t[i] = e.get(fr, r)
					}
					return t
				}
			case *ssa.Panic:
				v := e.get(fr, x.X)
				e.raise(&goPanic{val: v, msg: "explicit panic in " + name + ": " + e.describe(v)})
			case *ssa.Defer:
				var args []Value
				for _, a := range x.Call.Args {
					args = append(args, e.get(fr, a))
				}
				var fv Value
				if x.Call.IsInvoke() {
					fv = e.get(fr, x.Call.Value)
				} else {
					fv = e.get(fr, x.Call.Value)
				}
				fr.defers = append(fr.defers, deferred{fn: fv, args: args, cc: &x.Call})
			case *ssa.RunDefers:
				e.runDefers(fr)
			case *ssa.MapUpdate:
				e.mapUpdate(e.get(fr, x.Map), e.get(fr, x.Key), e.get(fr, x.Value))
			case *ssa.Go, *ssa.Send, *ssa.Select:
				panic(inconclusive{fmt.Sprintf("concurrency instruction %T in %s", in, name)})
			default:
				e.step(fr, in)
			}
		}
		fr.prev = blk
		blk = next
		if blk == nil {
			panic(inconclusive{"fell off block in " + name})
		}
	}
}

func (e *Engine) unwindExceeded(fn *ssa.Function, blk *ssa.BasicBlock) {
	// the loop is still running on a feasible path: unwinding obligation fails for this bound
	e.obligs = append(e.obligs, Obligation{Harness: e.harness, Kind: "unwind", Label: fmt.Sprintf("loop in %s block %d exceeds unwind bound %d", fn, blk.Index, e.cfg.Unwind), Verdict: "sat", Path: e.pathNo})
	panic(pathEnd{})
}

func (e *Engine) goPanicf(format string, a ...interface{}) {
	e.raise(&goPanic{msg: fmt.Sprintf(format, a...)})
}

func (e *Engine) raise(p *goPanic) {
	if e.inMerged > 0 {
		panic(mergeAbort{"panic: " + p.msg})
	}
	panic(p)
}

func (e *Engine) describe(v Value) string {
	switch x := v.(type) {
	case *IfaceVal:
		if x == nil {
			return "nil"
		}
		return e.describe(x.V)
	case *T:
		if s, ok := goStr(x); ok {
			return s
		}
		s := x.String()
		if len(s) > 80 {
			s = s[:80] + "…"
		}
		return s
	case *ErrVal:
		if x.ID != "" {
			return "error(" + x.ID + ")"
		}
		return "error(wrap " + e.describe(x.Parent) + ")"
	case *PtrVal:
		if x != nil && x.L.Extra != nil {
			return e.describe(x.L.Extra)
		}
	}
	return fmt.Sprintf("%T", v)
}

// ---------- side-effect-free instructions (shared by both modes) ----------

func (e *Engine) step(fr *frame, in ssa.Instruction) {
	switch x := in.(type) {
	case *ssa.UnOp:
		fr.env[x] = e.unop(fr, x)
	case *ssa.BinOp:
		fr.env[x] = e.binop(x.Op, e.get(fr, x.X), e.get(fr, x.Y), x.X.Type(), x.Y.Type())
	case *ssa.FieldAddr:
		p, _ := e.get(fr, x.X).(*PtrVal)
		if p == nil {
			e.goPanicf("nil pointer dereference (field %d) in %s", x.Field, fr.fn)
		}
		if p.L.Fields == nil {
			panic(inconclusive{fmt.Sprintf("FieldAddr on opaque %s in %s", p.L.T, fr.fn)})
		}
		fr.env[x] = &PtrVal{p.L.Fields[x.Field]}
	case *ssa.Field:
		sv, ok := e.get(fr, x.X).(*StructVal)
		if !ok {
			panic(inconclusive{fmt.Sprintf("Field on %T in %s", e.get(fr, x.X), fr.fn)})
		}
		fr.env[x] = sv.F[x.Field]
	case *ssa.IndexAddr:
		fr.env[x] = e.indexAddr(fr, x)
	case *ssa.Index:
		fr.env[x] = e.index(fr, x)
	case *ssa.Slice:
		fr.env[x] = e.sliceOp(fr, x)
	case *ssa.Extract:
		tv, ok := e.get(fr, x.Tuple).(Tuple)
		if !ok {
			panic(inconclusive{"extract from non-tuple produced by " + x.Tuple.String() + " in " + fr.fn.String()})
		}
		fr.env[x] = tv[x.Index]
	case *ssa.MakeInterface:
		fr.env[x] = &IfaceVal{T: x.X.Type(), V: e.get(fr, x.X)}
	case *ssa.ChangeInterface:
		fr.env[x] = e.get(fr, x.X)
	case *ssa.ChangeType:
		fr.env[x] = e.get(fr, x.X)
	case *ssa.Convert:
		fr.env[x] = e.convert(e.get(fr, x.X), x.X.Type(), x.Type())
	case *ssa.MultiConvert:
		fr.env[x] = e.convert(e.get(fr, x.X), x.X.Type(), x.Type())
	case *ssa.SliceToArrayPointer:
		s, _ := e.get(fr, x.X).(*SliceVal)
		n := int(x.Type().(*types.Pointer).Elem().Underlying().(*types.Array).Len())
		if s == nil {
			if sq, ok := e.get(fr, x.X).(*T); ok {
				s = e.seqToVec(sq, n)
			}
		}
		if s == nil || s.Len < n {
			e.goPanicf("slice to array pointer: length")
		}
		arr := &Loc{T: x.Type().(*types.Pointer).Elem(), Elems: s.Arr.Elems[s.Off : s.Off+n]}
		fr.env[x] = &PtrVal{arr}
	case *ssa.TypeAssert:
		fr.env[x] = e.typeAssert(fr, x)
	case *ssa.MakeMap:
		fr.env[x] = &MapVal{}
	case *ssa.Lookup:
		fr.env[x] = e.lookup(fr, x)
	case *ssa.MakeSlice:
		n := constInt(e.get(fr, x.Len), "make len")
		c := constInt(e.get(fr, x.Cap), "make cap")
		if c < n {
			c = n
		}
		arr := e.newLoc(types.NewArray(x.Type().Underlying().(*types.Slice).Elem(), int64(c)))
		if e.localLocs != nil {
			e.markLocal(arr)
		}
		fr.env[x] = &SliceVal{Arr: arr, Len: n, Cap: c}
	case *ssa.MakeClosure:
		c := &Closure{Fn: x.Fn.(*ssa.Function)}
		for _, b := range x.Bindings {
			c.Bind = append(c.Bind, e.get(fr, b))
		}
		fr.env[x] = c
	case *ssa.Range:
		fr.env[x] = e.rangeStart(fr, x)
	case *ssa.Next:
		fr.env[x] = e.rangeNext(fr, x)
	case *ssa.DebugRef:
	default:
		if e.inMerged > 0 {
			panic(mergeAbort{fmt.Sprintf("instr %T", in)})
		}
		panic(inconclusive{fmt.Sprintf("unsupported instr %T in %s", in, fr.fn)})
	}
}

func (e *Engine) typeAssert(fr *frame, x *ssa.TypeAssert) Value {
	iv, _ := e.get(fr, x.X).(*IfaceVal)
	ok := false
	var res Value
	if iv != nil {
		if it, isI := x.AssertedType.Underlying().(*types.Interface); isI {
			if iv.T != nil {
				ok = types.Implements(iv.T, it)
			} else if _, isErr := iv.V.(*ErrVal); isErr {
				ok = it.NumMethods() == 1 && it.Method(0).Name() == "Error"
			}
			res = iv
		} else {
			ok = iv.T != nil && types.Identical(iv.T, x.AssertedType)
			res = iv.V
		}
	}
	if !ok {
		res = e.zero(x.AssertedType)
	}
	if x.CommaOk {
		return Tuple{res, BoolConst(ok)}
	}
	if !ok {
		e.goPanicf("failed type assertion to %s in %s", x.AssertedType, fr.fn)
	}
	return res
}

func (e *Engine) markLocal(l *Loc) {
	e.localLocs[l] = true
	for _, f := range l.Fields {
		e.markLocal(f)
	}
	for _, f := range l.Elems {
		e.markLocal(f)
	}
}

// ---------- merged mode ----------

func (e *Engine) topoOrder(fn *ssa.Function) ([]*ssa.BasicBlock, bool) {
	if o, ok := e.topo[fn]; ok {
		return o, o != nil
	}
	state := map[*ssa.BasicBlock]int{}
	var post []*ssa.BasicBlock
	ok := true
	var dfs func(b *ssa.BasicBlock)
	dfs = func(b *ssa.BasicBlock) {
		state[b] = 1
		for _, s := range b.Succs {
			if state[s] == 1 {
				ok = false
			} else if state[s] == 0 {
				dfs(s)
			}
		}
		state[b] = 2
		post = append(post, b)
	}
	dfs(fn.Blocks[0])
	if !ok {
		e.topo[fn] = nil
		return nil, false
	}
	for i, j := 0, len(post)-1; i < j; i, j = i+1, j-1 {
		post[i], post[j] = post[j], post[i]
	}
	e.topo[fn] = post
	return post, true
}

// mergeVal2 merges two real values under guard g (g ? v : old); aborts the merge attempt when impossible.
func (e *Engine) mergeVal2(g *T, v, old Value) Value {
	if g.IsTrue() {
		return v
	}
	if isNilVal(v) && isNilVal(old) {
		return v
	}
	if isNilVal(v) != isNilVal(old) {
		panic(mergeAbort{"merge nil vs non-nil"})
	}
	switch x := v.(type) {
	case *T:
		o, ok := old.(*T)
		if !ok {
			panic(mergeAbort{"merge kind"})
		}
		if x == o {
			return x
		}
		if x.Sort != o.Sort {
			panic(mergeAbort{"merge sort"})
		}
		return Ite(g, x, o)
	case *StructVal:
		o, ok := old.(*StructVal)
		if !ok || len(o.F) != len(x.F) {
			panic(mergeAbort{"merge kind"})
		}
		r := &StructVal{F: make([]Value, len(x.F))}
		for i := range x.F {
			r.F[i] = e.mergeVal2(g, x.F[i], o.F[i])
		}
		return r
	case *TimeVal:
		if o, ok := old.(*TimeVal); ok {
			return &TimeVal{Sec: Ite(g, x.Sec, o.Sec), Nsec: Ite(g, x.Nsec, o.Nsec)}
		}
	case *IntVal:
		if o, ok := old.(*IntVal); ok && o.Nil == x.Nil {
			return &IntVal{V: Ite(g, x.V, o.V), Nil: x.Nil}
		}
	case *IfaceVal:
		if o, ok := old.(*IfaceVal); ok && x.T != nil && o.T != nil && types.Identical(x.T, o.T) {
			if identEq(x, o) {
				return x
			}
			if _, isPtr := x.V.(*PtrVal); !isPtr {
				return &IfaceVal{T: x.T, V: e.mergeVal2(g, x.V, o.V)}
			}
		}
	case Tuple:
		if o, ok := old.(Tuple); ok && len(o) == len(x) {
			nt := make(Tuple, len(x))
			for i := range x {
				nt[i] = e.mergeVal2(g, x[i], o[i])
			}
			return nt
		}
	}
	if identEq(v, old) {
		return v
	}
	panic(mergeAbort{"merge non-scalar"})
}

type undefined struct{}

func (e *Engine) callMerged(fn *ssa.Function, args []Value, free []Value) (ret Value, ok bool, why string) {
	order, acyclic := e.topoOrder(fn)
	if !acyclic {
		return nil, false, "loop"
	}
	savedGuard, savedLocal := e.guard, e.localLocs
	savedPcLen, savedAx := len(e.pc), len(e.axioms)
	_ = savedAx
	// fresh-name counters must replay identically when the attempt is abandoned and the call re-run in forking mode
	savedFresh := make(map[string]int, len(e.freshN))
	for k, v := range e.freshN {
		savedFresh[k] = v
	}
	e.inMerged++
	defer func() {
		e.inMerged--
		e.guard, e.localLocs = savedGuard, savedLocal
		if r := recover(); r != nil {
			e.pc = e.pc[:savedPcLen]
			e.freshN = savedFresh
			switch x := r.(type) {
			case mergeAbort:
				ret, ok, why = nil, false, x.why
				return
			case inconclusive:
				// both arms run without feasibility pruning: an unsupported operation on an infeasible arm
				// must not kill the path — fall back to forking.
				ret, ok, why = nil, false, "inconclusive: "+x.msg
				return
			}
			panic(r)
		}
	}()
	if e.localLocs == nil {
		e.localLocs = map[*Loc]bool{}
	}
	fr := &frame{fn: fn, env: make(map[ssa.Value]Value, 16), free: free}
	for i, p := range fn.Params {
		fr.env[p] = args[i]
	}
	type edgeKey struct{ a, b *ssa.BasicBlock }
	edge := map[edgeKey]*T{}
	var result Value = undefined{}
	base := e.guard
	for _, blk := range order {
		g := BoolConst(blk == fn.Blocks[0])
		for _, p := range blk.Preds {
			if eg, ok := edge[edgeKey{p, blk}]; ok {
				g = Or(g, eg)
			}
		}
		if g.IsFalse() {
			continue
		}
		e.guard = And(base, g)
		for _, in := range blk.Instrs {
			e.stats.Instrs++
			switch x := in.(type) {
			case *ssa.Phi:
				var v Value = undefined{}
				for i, p := range blk.Preds {
					eg, ok := edge[edgeKey{p, blk}]
					if !ok || eg.IsFalse() {
						continue
					}
					nv := e.get(fr, x.Edges[i])
					if _, un := v.(undefined); un {
						v = nv
					} else {
						v = e.mergeVal2(eg, nv, v)
					}
				}
				if _, un := v.(undefined); un {
					v = nil
				}
				fr.env[x] = v
			case *ssa.Alloc:
				l := e.newLoc(x.Type().(*types.Pointer).Elem())
				e.markLocal(l)
				fr.env[x] = &PtrVal{l}
			case *ssa.Store:
				p, _ := e.get(fr, x.Addr).(*PtrVal)
				if p == nil {
					panic(mergeAbort{"panic: nil store"})
				}
				if !e.localLocs[p.L] {
					panic(mergeAbort{"store to non-local"})
				}
				if g.IsTrue() {
					store(p.L, e.get(fr, x.Val))
				} else {
					store(p.L, e.mergeVal2(g, e.get(fr, x.Val), load(p.L)))
				}
			case *ssa.If:
				c := e.get(fr, x.Cond).(*T)
				edge[edgeKey{blk, blk.Succs[0]}] = And(g, c)
				edge[edgeKey{blk, blk.Succs[1]}] = And(g, Not(c))
			case *ssa.Jump:
				edge[edgeKey{blk, blk.Succs[0]}] = g
			case *ssa.Return:
				var v Value
				switch len(x.Results) {
				case 0:
				case 1:
					v = e.get(fr, x.Results[0])
				default:
					t := make(Tuple, len(x.Results))
					for i, r := range x.Results {
						t[i] = e.get(fr, r)
					}
					v = t
				}
				if _, un := result.(undefined); un {
					result = v
				} else {
					result = e.mergeVal2(g, v, result)
				}
			case *ssa.Panic:
				panic(mergeAbort{"panic in merged region"})
			case *ssa.Call:
				fr.env[x] = e.doCall(fr, &x.Call)
			case *ssa.Defer, *ssa.RunDefers:
				panic(mergeAbort{"defer"})
			case *ssa.MapUpdate:
				panic(mergeAbort{"store to non-local (map)"})
			default:
				e.step(fr, in)
			}
		}
	}
	e.stats.Merged++
	if _, un := result.(undefined); un {
		result = nil
	}
	return result, true, ""
}

// ---------- call dispatch ----------

func (e *Engine) doCall(fr *frame, cc *ssa.CallCommon) Value {
	var args []Value
	if cc.IsInvoke() {
		recv := e.get(fr, cc.Value)
		for _, a := range cc.Args {
			args = append(args, e.get(fr, a))
		}
		return e.invoke(recv, cc, args, fr)
	}
	for _, a := range cc.Args {
		args = append(args, e.get(fr, a))
	}
	return e.applyValue(fr, cc, e.get(fr, cc.Value), args)
}

func (e *Engine) invoke(recv Value, cc *ssa.CallCommon, args []Value, fr *frame) Value {
	iv, _ := recv.(*IfaceVal)
	if iv == nil {
		if c, ok := recv.(*CtxVal); ok && c != nil {
			// context.Context interface holding our ctx
			return e.ctxMethod(c, cc.Method.Name(), args)
		}
		it := cc.Value.Type().String()
		if strings.Contains(it, "log/v2.Logger") || strings.Contains(it, "log.Logger") {
			return e.zeroResultsSig(cc.Signature())
		}
		e.goPanicf("nil interface invoke %s.%s in %s", it, cc.Method.Name(), fr.fn)
	}
	if ev, ok := iv.V.(*ErrVal); ok {
		return e.errMethod(iv, ev, cc.Method.Name(), args)
	}
	if c, ok := iv.V.(*CtxVal); ok {
		return e.ctxMethod(c, cc.Method.Name(), args)
	}
	if ov, ok := iv.V.(*OpaqueVal); ok {
		if h := opaqueMethods[ov.Tag+"."+cc.Method.Name()]; h != nil {
			return h(e, nil, append([]Value{ov}, args...))
		}
		if ov.Tag == "noop" {
			return e.zeroResultsSig(cc.Signature())
		}
		panic(inconclusive{"method " + cc.Method.Name() + " on opaque " + ov.Tag})
	}
	if iv.T == nil {
		panic(inconclusive{"invoke " + cc.Method.Name() + " on untyped engine value"})
	}
	m := e.sh.prog.LookupMethod(iv.T, cc.Method.Pkg(), cc.Method.Name())
	if m == nil {
		panic(inconclusive{"no method " + cc.Method.Name() + " on " + iv.T.String()})
	}
	return e.call(m, append([]Value{iv.V}, args...))
}

func (e *Engine) zeroResultsSig(sig *types.Signature) Value {
	res := sig.Results()
	switch res.Len() {
	case 0:
		return nil
	case 1:
		return e.zeroTol(res.At(0).Type())
	}
	var t Tuple
	for i := 0; i < res.Len(); i++ {
		t = append(t, e.zeroTol(res.At(i).Type()))
	}
	return t
}
func (e *Engine) zeroTol(t types.Type) (v Value) {
	defer func() {
		if r := recover(); r != nil {
			v = nil
		}
	}()
	return e.zero(t)
}

func (e *Engine) applyValue(fr *frame, cc *ssa.CallCommon, fv Value, args []Value) Value {
	switch f := fv.(type) {
	case *Closure:
		if f == nil {
			e.goPanicf("call of nil func in %s", fr.fn)
		}
		if f.Intr != nil {
			return f.Intr(e, args)
		}
		return e.callFree(f.Fn, args, f.Bind)
	case *ssa.Builtin:
		return e.builtin(fr, cc, f, args)
	case *IfaceVal:
		// deferred invoke
		if cc != nil && cc.IsInvoke() {
			return e.invoke(f, cc, args, fr)
		}
	case nil:
		e.goPanicf("call of nil func value in %s", fr.fn)
	}
	panic(inconclusive{fmt.Sprintf("dynamic call of %T in %s", fv, fr.fn)})
}

// ---------- harness driver ----------

func (e *Engine) resetPath() {
	e.pos = 0
	e.pc = nil
	e.axioms = nil
	e.axiomSeen = map[string]bool{}
	e.globals = map[*ssa.Global]*Loc{}
	e.guard = tTrue
	e.localLocs = nil
	e.inMerged = 0
	e.inited = map[*ssa.Package]bool{}
	e.tolerant = false
	e.panicking = nil
	e.freshN = map[string]int{}
	e.depth = 0
	e.world = newWorld(e)
	e.noPanic = false
	e.permute = false
	e.pathLabels = nil
	e.decodeMayFail = false
	e.exactBE = false
	e.exactDecLen = false
	e.collisionFree = false
	e.repBounds = map[string][2]int{}
	e.ifaceCands = map[string][]types.Type{}
	e.encInfo = map[*T]map[string]*T{}
}

func (e *Engine) runHarness(fn *ssa.Function) {
	e.work = [][]int{{}}
	for len(e.work) > 0 {
		if e.stats.Paths >= e.cfg.MaxPaths {
			e.inconcl = append(e.inconcl, fmt.Sprintf("path budget %d exhausted with %d paths pending", e.cfg.MaxPaths, len(e.work)))
			break
		}
		if !e.deadline.IsZero() && time.Now().After(e.deadline) {
			e.inconcl = append(e.inconcl, fmt.Sprintf("time budget exhausted with %d paths pending", len(e.work)))
			break
		}
		d := e.work[len(e.work)-1]
		e.work = e.work[:len(e.work)-1]
		e.decisions = d
		e.resetPath()
		e.stats.Paths++
		e.pathNo = e.stats.Paths
		func() {
			defer func() {
				if r := recover(); r != nil {
					if e.trace {
						fmt.Fprintf(os.Stderr, "  [path %d ends] %T %v pc=%d\n", e.pathNo, r, r, len(e.pc))
						if _, isEnd := r.(pathEnd); isEnd {
							for _, c := range e.pc {
								s := c.String()
								if len(s) > 400 {
									s = s[:400] + "…"
								}
								fmt.Fprintf(os.Stderr, "      pc: %s\n", s)
							}
						}
					}
					switch x := r.(type) {
					case pathEnd:
					case inconclusive:
						e.addInconclusive(x.msg)
					case mergeAbort:
						e.addInconclusive("stray merge abort: " + x.why)
					case *goPanic:
						e.stats.PanicPaths++
						e.topLevelPanic(x)
					default:
						panic(r)
					}
				}
			}()
			e.call(fn, nil)
		}()
	}
}

func (e *Engine) addInconclusive(msg string) {
	for _, m := range e.inconcl {
		if m == msg {
			return
		}
	}
	e.inconcl = append(e.inconcl, msg)
}

func (e *Engine) topLevelPanic(p *goPanic) {
	if !e.noPanic {
		e.note("panic path (allowed): " + p.msg)
		return
	}
	// nopanic obligation: the path is feasible (every branch was checked) — ask for a model
	e.checkObligation("nopanic", p.msg, tFalse)
}

func (e *Engine) encodedFuncs(filter string) []string {
	var fs []string
	for f := range e.funcsSeen {
		if strings.Contains(f, filter) {
			fs = append(fs, f)
		}
	}
	sort.Strings(fs)
	return fs
}

var _ = token.ADD

var hashUFs = map[string]bool{"sha256": true, "keccak256": true, "sig": true, "sigdata": true}

// collisionAxioms instantiates h(a) = h(b) => a = b on every pair of occurring hash applications (opt-in).
func collisionAxioms(ts []*T) []*T {
	var apps []*T
	seen := map[*T]bool{}
	var walk func(t *T)
	walk = func(t *T) {
		if seen[t] {
			return
		}
		seen[t] = true
		if t.Op == "uf" && hashUFs[t.Name] {
			apps = append(apps, t)
		}
		for _, a := range t.Args {
			walk(a)
		}
	}
	for _, t := range ts {
		walk(t)
	}
	var out []*T
	for i := 0; i < len(apps); i++ {
		for j := i + 1; j < len(apps); j++ {
			if apps[i].Name != apps[j].Name || apps[i].Args[0] == apps[j].Args[0] {
				continue
			}
			out = append(out, Implies(mk("=", BoolS, apps[i], apps[j]), Eq(apps[i].Args[0], apps[j].Args[0])))
		}
	}
	return out
}
