// gosmt: bounded symbolic execution of Go (go/ssa) emitting SMT-LIB queries.
//
// usage: gosmt -dir <harness module> -pkg <./cNN> [-harness regex] [-out result.json] [flags]
package main

import (
	"encoding/json"
	"flag"
	"fmt"
	"go/ast"
	"os"
	"os/exec"
	"regexp"
	"sort"
	"strings"
	"sync"
	"time"

	"golang.org/x/tools/go/packages"
	"golang.org/x/tools/go/ssa"
	"golang.org/x/tools/go/ssa/ssautil"
)

type HarnessResult struct {
	Name         string         `json:"name"`
	Doc          string         `json:"doc,omitempty"`
	Paths        int            `json:"paths"`
	PanicPaths   int            `json:"panic_paths"`
	Instrs       int            `json:"instrs"`
	MergedCalls  int            `json:"merged_calls"`
	Pruned       int            `json:"pruned_branches"`
	Queries      int            `json:"queries"`
	FeasQueries  int            `json:"feasibility_queries"`
	FeasS        float64        `json:"feasibility_s"`
	FeasUnknown  int            `json:"feasibility_unknown"`
	SolverS      float64        `json:"solver_s"`
	WallS        float64        `json:"wall_s"`
	Wins         map[string]int `json:"solver_wins"`
	Obligations  []Obligation   `json:"obligations"`
	ReachFailed  []string       `json:"reach_failed,omitempty"`
	Inconclusive []string       `json:"inconclusive,omitempty"`
	Notes        []string       `json:"notes,omitempty"`
	Funcs        []string       `json:"functions_encoded"`
	Stubs        []string       `json:"stubs"`
	Crash        string         `json:"crash,omitempty"`
}

type RunResult struct {
	Pkg       string          `json:"pkg"`
	LoadS     float64         `json:"load_s"`
	WallS     float64         `json:"wall_s"`
	Solvers   []string        `json:"solvers"`
	Config    RunConfig       `json:"config"`
	Harnesses []HarnessResult `json:"harnesses"`
	Error     string          `json:"error,omitempty"`
}

func main() {
	dir := flag.String("dir", "/verif/harness", "harness module directory")
	pkg := flag.String("pkg", "", "harness package pattern, e.g. ./c17")
	hre := flag.String("harness", "", "regex selecting harness functions")
	out := flag.String("out", "", "result JSON path")
	solvers := flag.String("solvers", "cvc5,z3-5.1", "comma-separated solver portfolio")
	branchMs := flag.Int("branch-ms", 3000, "timeout for feasibility queries")
	assertMs := flag.Int("assert-ms", 20000, "timeout for obligations")
	maxPaths := flag.Int("max-paths", 400, "path budget per harness")
	maxInstrs := flag.Int("max-instrs", 400000000, "instruction budget per harness")
	unwind := flag.Int("unwind", 12, "loop unwinding bound (visits per loop header per call)")
	split := flag.Int("split", 6, "bound on parts produced by strings.Split on symbolic input")
	par := flag.Int("par", 5, "harnesses run in parallel")
	noMerge := flag.Bool("no-merge", false, "disable if-conversion")
	noSlice := flag.Bool("no-slice", false, "disable independence slicing of feasibility queries")
	tags := flag.String("tags", "gosmt", "build tags for loading the harness module")
	budget := flag.Int("harness-budget-s", 0, "wall-clock budget per harness (0 = none)")
	thorough := flag.Bool("thorough", false, "thorough tier (harnesses may widen their bounds via verif.Thorough())")
	verbose := flag.Bool("v", false, "verbose")
	trace := flag.Bool("trace", false, "print fork sites")
	flag.Parse()

	res := RunResult{Pkg: *pkg, Solvers: strings.Split(*solvers, ",")}
	cfg := RunConfig{BranchTimeoutMs: *branchMs, AssertTimeoutMs: *assertMs, MaxPaths: *maxPaths, MaxInstrs: *maxInstrs, Unwind: *unwind, Merge: !*noMerge, Slice: !*noSlice, Thorough: *thorough}
	res.Config = cfg
	t0 := time.Now()
	sh, harnesses, err := loadProgram(*dir, *pkg, *tags)
	if err != nil {
		res.Error = err.Error()
		writeResult(*out, &res)
		fmt.Fprintln(os.Stderr, "load error:", err)
		os.Exit(2)
	}
	res.LoadS = time.Since(t0).Seconds()
	var re *regexp.Regexp
	if *hre != "" {
		re = regexp.MustCompile(*hre)
	}
	var selected []*ssa.Function
	for _, h := range harnesses {
		if re == nil || re.MatchString(h.Name()) {
			selected = append(selected, h)
		}
	}
	if *verbose {
		fmt.Fprintf(os.Stderr, "loaded in %.1fs, %d harnesses\n", res.LoadS, len(selected))
	}
	results := make([]HarnessResult, len(selected))
	sem := make(chan struct{}, *par)
	var wg sync.WaitGroup
	for i, h := range selected {
		wg.Add(1)
		go func(i int, h *ssa.Function) {
			defer wg.Done()
			sem <- struct{}{}
			defer func() { <-sem }()
			results[i] = runOneHarness(sh, h, cfg, res.Solvers, *split, *budget, *trace)
			if *verbose {
				r := results[i]
				fmt.Fprintf(os.Stderr, "== %s: paths=%d instrs=%d merged=%d queries=%d (feas %d, %.1fs, unknown %d) solver=%.1fs wall=%.1fs obligations=%d inconclusive=%d\n",
					r.Name, r.Paths, r.Instrs, r.MergedCalls, r.Queries, r.FeasQueries, r.FeasS, r.FeasUnknown, r.SolverS, r.WallS, len(r.Obligations), len(r.Inconclusive))
				for _, o := range r.Obligations {
					if (o.Kind != "reach" && o.Verdict != "unsat") || (o.Kind == "reach" && o.Verdict != "sat") {
						fmt.Fprintf(os.Stderr, "   %s %q -> %s (%s, path %d) %v\n", o.Kind, o.Label, o.Verdict, o.Solver, o.Path, o.Model)
					}
				}
				for _, m := range r.ReachFailed {
					fmt.Fprintf(os.Stderr, "   REACH FAILED: %s\n", m)
				}
				for _, m := range r.Inconclusive {
					fmt.Fprintf(os.Stderr, "   INCONCLUSIVE: %s\n", m)
				}
				for _, m := range r.Notes {
					fmt.Fprintf(os.Stderr, "   note: %s\n", m)
				}
				if r.Crash != "" {
					fmt.Fprintf(os.Stderr, "   CRASH: %s\n", r.Crash)
				}
			}
		}(i, h)
	}
	wg.Wait()
	res.Harnesses = results
	res.WallS = time.Since(t0).Seconds()
	writeResult(*out, &res)
}

func writeResult(path string, r *RunResult) {
	bz, _ := json.MarshalIndent(r, "", " ")
	if path == "" {
		os.Stdout.Write(bz)
		return
	}
	_ = os.WriteFile(path, bz, 0o644)
}

func runOneHarness(sh *Shared, h *ssa.Function, cfg RunConfig, solvers []string, split, budget int, trace bool) (hr HarnessResult) {
	t0 := time.Now()
	pf := NewPortfolio(solvers)
	defer pf.Close()
	e := &Engine{sh: sh, pf: pf, harness: h.Name(), cfg: cfg, funcsSeen: map[string]bool{}, reachSeen: map[string]bool{}, failedLabels: map[string]bool{}, reachPending: map[string]string{},
		stubsUsed: map[string]bool{}, linkCache: map[*ssa.Function]*ssa.Function{}, noMerge: map[*ssa.Function]string{}, topo: map[*ssa.Function][]*ssa.BasicBlock{},
		deferC: map[*ssa.Function]bool{}, fnInfos: map[*ssa.Function]*fnInfo{}, symCache: map[*T]map[string]bool{}, splitBound: split, trace: trace}
	if budget > 0 {
		e.deadline = t0.Add(time.Duration(budget) * time.Second)
	}
	hr.Name = h.Name()
	if fd, ok := h.Syntax().(*ast.FuncDecl); ok && fd.Doc != nil {
		hr.Doc = strings.TrimSpace(fd.Doc.Text())
	}
	func() {
		defer func() {
			if r := recover(); r != nil {
				hr.Crash = fmt.Sprintf("%v", r)
				if os.Getenv("GOSMT_TRACE") != "" {
					panic(r)
				}
			}
		}()
		e.runHarness(h)
	}()
	hr.Paths, hr.PanicPaths, hr.Instrs, hr.MergedCalls, hr.Pruned = e.stats.Paths, e.stats.PanicPaths, e.stats.Instrs, e.stats.Merged, e.stats.Pruned
	hr.Queries, hr.SolverS, hr.Wins = pf.Queries, pf.Time.Seconds(), pf.Wins
	hr.FeasQueries, hr.FeasS, hr.FeasUnknown = e.stats.FeasN, float64(e.stats.FeasMs)/1000, e.stats.FeasUnknown
	hr.Obligations = e.obligs
	for l, r := range e.reachPending {
		if !e.reachSeen[l] {
			hr.ReachFailed = append(hr.ReachFailed, l+" ("+r+")")
		}
	}
	sort.Strings(hr.ReachFailed)
	hr.Inconclusive, hr.Notes = e.inconcl, e.notes
	hr.Funcs = e.encodedFuncs("github.com/cosmos/ibc-go")
	for s := range e.stubsUsed {
		if !strings.HasPrefix(s, "verifharness/verif.") {
			hr.Stubs = append(hr.Stubs, s)
		}
	}
	sort.Strings(hr.Stubs)
	hr.WallS = time.Since(t0).Seconds()
	return hr
}

func loadProgram(dir, pattern, tags string) (*Shared, []*ssa.Function, error) {
	env := append(os.Environ(), "GOFLAGS=-mod=mod", "GOPROXY=off", "GOTOOLCHAIN=local")
	// roots: harness package + every ibc-go package in its import closure (so their bodies are available)
	cmd := exec.Command("go", "list", "-tags", tags, "-deps", "-f", "{{.ImportPath}}", pattern, "verifharness/models")
	cmd.Dir = dir
	cmd.Env = env
	outb, err := cmd.Output()
	if err != nil {
		msg := ""
		if ee, ok := err.(*exec.ExitError); ok {
			msg = string(ee.Stderr)
		}
		return nil, nil, fmt.Errorf("go list: %v %s", err, msg)
	}
	roots := []string{pattern} // (the models package, which carries the //verif:model redirections, is always among the deps)
	seenRoot := map[string]bool{}
	for _, l := range strings.Split(string(outb), "\n") {
		if seenRoot[l] {
			continue
		}
		seenRoot[l] = true
		if strings.HasPrefix(l, "github.com/cosmos/ibc-go/") || (strings.HasPrefix(l, "verifharness/") && !strings.HasSuffix(l, strings.TrimPrefix(pattern, "."))) {
			roots = append(roots, l)
		}
	}
	pcfg := &packages.Config{Mode: packages.LoadSyntax, Dir: dir, Env: env, BuildFlags: []string{"-tags=" + tags}}
	pkgs, err := packages.Load(pcfg, roots...)
	if err != nil {
		return nil, nil, err
	}
	var errs []string
	packages.Visit(pkgs, nil, func(p *packages.Package) {
		for _, e := range p.Errors {
			errs = append(errs, e.Error())
		}
	})
	if len(errs) > 0 {
		if len(errs) > 8 {
			errs = errs[:8]
		}
		return nil, nil, fmt.Errorf("package errors: %s", strings.Join(errs, "; "))
	}
	prog, spkgs := ssautil.AllPackages(pkgs, ssa.InstantiateGenerics)
	prog.Build()
	sh := &Shared{prog: prog, allFuncs: map[string]*ssa.Function{}, models: map[string]*ssa.Function{}}
	for f := range ssautil.AllFunctions(prog) {
		sh.allFuncs[f.String()] = f
	}
	var harnesses []*ssa.Function
	for _, sp := range spkgs {
		if sp == nil || !strings.HasPrefix(sp.Pkg.Path(), "verifharness/") {
			continue
		}
		for n, m := range sp.Members {
			f, ok := m.(*ssa.Function)
			if !ok {
				continue
			}
			if fd, ok := f.Syntax().(*ast.FuncDecl); ok && fd.Doc != nil {
				for _, c := range fd.Doc.List {
					fs := strings.Fields(c.Text)
					if len(fs) == 2 && fs[0] == "//verif:model" {
						sh.models[fs[1]] = f
					}
				}
			}
			if strings.HasPrefix(n, "Harness") && strings.HasSuffix(sp.Pkg.Path(), strings.TrimPrefix(pattern, ".")) {
				harnesses = append(harnesses, f)
			}
		}
	}
	sort.Slice(harnesses, func(i, j int) bool { return harnesses[i].Name() < harnesses[j].Name() })
	return sh, harnesses, nil
}
