// Intrinsics: strings, bytes, fmt, strconv, regexp, slices.
package main

import (
	"fmt"
	"go/types"
	"regexp"
	"strconv"
	"strings"

	"golang.org/x/tools/go/ssa"
)

func strT(v Value) *T { return toSeq(v) }

const digitsRe = `(re.+ (re.range "0" "9"))`
const canonDecRe = `(re.union (str.to_re "0") (re.++ (re.range "1" "9") (re.* (re.range "0" "9"))))`

// decUF: decimal formatting of a uint64 as an uninterpreted function with axioms.
func (e *Engine) decUF(t *T) *T {
	if t.IsConst() {
		return StrConst(strconv.FormatUint(t.BV, 10))
	}
	if t.Sort.W != 64 {
		t = BVZeroExt(t, 64)
	}
	d := UF("dec", StrS, t)
	key := fmt.Sprintf("dec:%d", t.id)
	if !e.axiomSeen[key] {
		ax := []*T{
			Eq(UF("undec", BVS(64), d), t),
			UF("pu_ok", BoolS, d),
			InRe(d, `((_ re.loop 1 20) (re.range "0" "9"))`),
		}
		if !e.lightDec {
			// canonical form (no leading zeros) and the redundant length bound; verif.LightDecimals drops them
			ax = append(ax, InRe(d, canonDecRe), IntCmp("<=", mk("str.len", IntS, d), IntConst(20)))
		}
		// exact digit counts (opt-in per harness): len(dec n) = k  <=>  10^(k-1) <= n < 10^k
		pow := uint64(1)
		for k := 1; k <= 20 && e.exactDecLen; k++ {
			lo := BVCmp("bvuge", t, BVConst(pow, 64))
			if k == 1 {
				lo = tTrue
			}
			hi := tTrue
			if k < 20 {
				hi = BVCmp("bvult", t, BVConst(pow*10, 64))
			}
			ax = append(ax, Implies(And(lo, hi), Eq(mk("str.len", IntS, d), IntConst(int64(k)))))
			pow *= 10
		}
		// separate conjuncts, so that a weakened query can drop the regular-expression fact alone
		for i, a := range ax {
			e.addAxiom(fmt.Sprintf("%s/%d", key, i), a)
		}
		e.axiomSeen[key] = true
	}
	return d
}

// decSigned: decimal formatting of an int64.
func (e *Engine) decSigned(t *T) *T {
	if t.IsConst() {
		return StrConst(strconv.FormatInt(t.SignedBV(), 10))
	}
	neg := BVCmp("bvslt", t, BVConst(0, t.Sort.W))
	return Ite(neg, Concat(StrConst("-"), e.decUF(BVNeg(t))), e.decUF(t))
}

// parseUintUF models strconv.ParseUint(s, 10, 64).
func (e *Engine) parseUintUF(s *T) (val *T, ok *T) {
	if s.IsConst() {
		v, err := strconv.ParseUint(s.Str, 10, 64)
		return BVConst(v, 64), BoolConst(err == nil)
	}
	if s.Op == "uf" && s.Name == "dec" {
		return s.Args[0], tTrue
	}
	ok = UF("pu_ok", BoolS, s)
	val = UF("undec", BVS(64), s)
	key := fmt.Sprintf("pu:%d", s.id)
	if !e.axiomSeen[key] {
		e.addAxiom(key, AndN(
			Implies(ok, InRe(s, digitsRe)),
			Implies(And(ok, InRe(s, canonDecRe)), Eq(UF("dec", StrS, val), s)),
			// short digit strings always parse
			Implies(And(InRe(s, digitsRe), IntCmp("<=", mk("str.len", IntS, s), IntConst(19))), ok),
		))
	}
	return val, ok
}

func (e *Engine) newErr(id string) Value { return &IfaceVal{V: &ErrVal{ID: id}} }

func init() {
	pure := func(f func(e *Engine, a []Value) Value) intrinsic {
		return func(e *Engine, fn *ssa.Function, a []Value) Value { return f(e, a) }
	}
	reg("strings.Contains", pure(func(e *Engine, a []Value) Value { return StrContains(strT(a[0]), strT(a[1])) }))
	reg("strings.HasPrefix", pure(func(e *Engine, a []Value) Value { return StrPrefixOf(strT(a[1]), strT(a[0])) }))
	reg("strings.HasSuffix", pure(func(e *Engine, a []Value) Value { return StrSuffixOf(strT(a[1]), strT(a[0])) }))
	reg("bytes.HasPrefix", intrinsics["strings.HasPrefix"])
	reg("bytes.HasSuffix", intrinsics["strings.HasSuffix"])
	reg("bytes.Contains", intrinsics["strings.Contains"])
	reg("bytes.Equal", pure(func(e *Engine, a []Value) Value { return Eq(strT(a[0]), strT(a[1])) }))
	reg("strings.EqualFold", pure(func(e *Engine, a []Value) Value {
		x, ok1 := goStr(a[0])
		y, ok2 := goStr(a[1])
		if ok1 && ok2 {
			return BoolConst(strings.EqualFold(x, y))
		}
		panic(inconclusive{"symbolic strings.EqualFold"})
	}))
	reg("bytes.Compare", pure(func(e *Engine, a []Value) Value {
		x, y := strT(a[0]), strT(a[1])
		return Ite(Eq(x, y), BVConst(0, 64), Ite(StrLt(x, y), BVConst(^uint64(0), 64), BVConst(1, 64)))
	}))
	reg("strings.Compare", intrinsics["bytes.Compare"])
	reg("strings.Index", pure(func(e *Engine, a []Value) Value {
		i := StrIndexOf(strT(a[0]), strT(a[1]), IntConst(0))
		if i.IsConst() {
			return BVConst(uint64(i.Int.Int64()), 64)
		}
		return Ite(IntCmp("<", i, IntConst(0)), BVConst(^uint64(0), 64), Int2BV(i, 64))
	}))
	trimPrefix := func(e *Engine, a []Value) Value {
		s, p := strT(a[0]), strT(a[1])
		has := StrPrefixOf(p, s)
		return Ite(has, StrSubstr(s, StrLen(p), IntSub(StrLen(s), StrLen(p))), s)
	}
	reg("strings.TrimPrefix", pure(trimPrefix))
	reg("bytes.TrimPrefix", pure(trimPrefix))
	reg("strings.CutPrefix", pure(func(e *Engine, a []Value) Value {
		s, p := strT(a[0]), strT(a[1])
		has := StrPrefixOf(p, s)
		return Tuple{Ite(has, StrSubstr(s, StrLen(p), IntSub(StrLen(s), StrLen(p))), s), has}
	}))
	reg("strings.TrimSuffix", pure(func(e *Engine, a []Value) Value {
		s, p := strT(a[0]), strT(a[1])
		has := StrSuffixOf(p, s)
		return Ite(has, StrSubstr(s, IntConst(0), IntSub(StrLen(s), StrLen(p))), s)
	}))
	reg("strings.TrimSpace", pure(func(e *Engine, a []Value) Value {
		s := strT(a[0])
		if c, ok := goStr(s); ok {
			return StrConst(strings.TrimSpace(c))
		}
		// uninterpreted; "TrimSpace(s) == \"\"" is decided by a peephole in Eq (s is all-whitespace);
		// the remaining facts: the result is a substring, and whitespace-free inputs are unchanged
		r := UF("trimspace", StrS, s)
		noWS := tTrue
		for _, ws := range []string{" ", "\t", "\n", "\v", "\f", "\r"} {
			noWS = And(noWS, Not(StrContains(s, StrConst(ws))))
		}
		if !e.abstractIDs {
			e.addAxiom(fmt.Sprintf("trim:%d", s.id), AndN(StrContains(s, r), Implies(noWS, Eq(r, s))))
		}
		e.note("strings.TrimSpace on symbolic input: ASCII whitespace only (Unicode spaces outside the claim)")
		return r
	}))
	reg("strings.ToLower", pure(func(e *Engine, a []Value) Value {
		if c, ok := goStr(a[0]); ok {
			return StrConst(strings.ToLower(c))
		}
		return UF("tolower", StrS, strT(a[0]))
	}))
	reg("strings.ToUpper", pure(func(e *Engine, a []Value) Value {
		if c, ok := goStr(a[0]); ok {
			return StrConst(strings.ToUpper(c))
		}
		if t := strT(a[0]); t.Op == "uf" && t.Name == "hexenc" {
			return e.hexUF(t.Args[0], true)
		}
		return UF("toupper", StrS, strT(a[0]))
	}))
	reg("strings.Repeat", pure(func(e *Engine, a []Value) Value {
		return StrConst(strings.Repeat(constStr(a[0], "Repeat s"), constInt(a[1], "Repeat n")))
	}))
	reg("strings.Join", pure(func(e *Engine, a []Value) Value {
		var parts []*T
		sep := strT(a[1])
		for i, l := range sliceElems(a[0]) {
			if i > 0 {
				parts = append(parts, sep)
			}
			parts = append(parts, load(l).(*T))
		}
		return Concat(parts...)
	}))
	reg("strings.Split", func(e *Engine, fn *ssa.Function, a []Value) Value { return e.split(strT(a[0]), strT(a[1]), -1) })
	reg("strings.SplitN", func(e *Engine, fn *ssa.Function, a []Value) Value {
		return e.split(strT(a[0]), strT(a[1]), constInt(a[2], "SplitN n"))
	})
	reg("strings.Count", pure(func(e *Engine, a []Value) Value {
		s, ok1 := goStr(a[0])
		p, ok2 := goStr(a[1])
		if ok1 && ok2 {
			return BVConst(uint64(strings.Count(s, p)), 64)
		}
		parts := e.split(strT(a[0]), strT(a[1]), -1).(*SliceVal)
		return BVConst(uint64(parts.Len-1), 64)
	}))
	reg("strings.ContainsRune", pure(func(e *Engine, a []Value) Value {
		r := a[1].(*T)
		if !r.IsConst() || r.BV > 127 {
			panic(inconclusive{"ContainsRune with symbolic rune"})
		}
		return StrContains(strT(a[0]), StrConst(string(rune(r.BV))))
	}))
	reg("strings.ContainsAny", pure(func(e *Engine, a []Value) Value {
		chars := constStr(a[1], "ContainsAny chars")
		r := tFalse
		for i := 0; i < len(chars); i++ {
			r = Or(r, StrContains(strT(a[0]), StrConst(chars[i:i+1])))
		}
		return r
	}))
	// strings.Builder
	sbLoc := func(a []Value) *Loc { return a[0].(*PtrVal).L }
	sbGet := func(l *Loc) *T {
		if t, ok := l.Extra.(*T); ok {
			return t
		}
		return StrConst("")
	}
	reg("(*strings.Builder).WriteString", func(e *Engine, fn *ssa.Function, a []Value) Value {
		l := sbLoc(a)
		if e.inMerged > 0 && !e.localLocs[l] {
			panic(mergeAbort{"store to non-local (builder)"})
		}
		l.Extra = Concat(sbGet(l), strT(a[1]))
		return Tuple{Int2BV(StrLen(strT(a[1])), 64), nil}
	})
	reg("(*strings.Builder).WriteByte", func(e *Engine, fn *ssa.Function, a []Value) Value {
		l := sbLoc(a)
		if e.inMerged > 0 && !e.localLocs[l] {
			panic(mergeAbort{"store to non-local (builder)"})
		}
		l.Extra = Concat(sbGet(l), CodeStr(a[1].(*T)))
		return nil
	})
	reg("(*strings.Builder).WriteRune", func(e *Engine, fn *ssa.Function, a []Value) Value {
		l := sbLoc(a)
		r := a[1].(*T)
		if !r.IsConst() || r.BV > 127 {
			panic(inconclusive{"WriteRune symbolic"})
		}
		l.Extra = Concat(sbGet(l), StrConst(string(rune(r.BV))))
		return Tuple{BVConst(1, 64), nil}
	})
	reg("(*strings.Builder).String", pure(func(e *Engine, a []Value) Value { return sbGet(sbLoc(a)) }))
	reg("(*strings.Builder).Len", pure(func(e *Engine, a []Value) Value { return Int2BV(StrLen(sbGet(sbLoc(a))), 64) }))
	reg("(*strings.Builder).Grow", pure(func(e *Engine, a []Value) Value { return nil }))
	reg("(*strings.Builder).Reset", func(e *Engine, fn *ssa.Function, a []Value) Value { sbLoc(a).Extra = nil; return nil })

	// fmt
	reg("fmt.Sprintf", func(e *Engine, fn *ssa.Function, a []Value) Value { return e.sprintf(a[0], a[1]) })
	reg("fmt.Appendf", func(e *Engine, fn *ssa.Function, a []Value) Value {
		return Concat(toSeq(a[0]), e.sprintf(a[1], a[2]))
	})
	reg("fmt.Sprint", func(e *Engine, fn *ssa.Function, a []Value) Value { return StrConst("<fmt.Sprint>") })
	reg("fmt.Errorf", func(e *Engine, fn *ssa.Function, a []Value) Value {
		ev := &ErrVal{ID: ""}
		for _, l := range sliceElems(a[1]) {
			if iv, ok := load(l).(*IfaceVal); ok && iv != nil {
				if _, isErr := iv.V.(*ErrVal); isErr || isErrorIface(iv) {
					ev.Parent = iv
					break
				}
			}
		}
		if ev.Parent == nil {
			ev.ID = e.freshName("fmt.Errorf@" + e.curSite)
		}
		return &IfaceVal{V: ev}
	})
	// strconv
	reg("strconv.FormatUint", pure(func(e *Engine, a []Value) Value {
		if constInt(a[1], "base") != 10 {
			panic(inconclusive{"FormatUint base != 10"})
		}
		return e.decUF(a[0].(*T))
	}))
	reg("strconv.FormatInt", pure(func(e *Engine, a []Value) Value { return e.decSigned(a[0].(*T)) }))
	reg("strconv.Itoa", pure(func(e *Engine, a []Value) Value { return e.decSigned(a[0].(*T)) }))
	reg("strconv.FormatBool", pure(func(e *Engine, a []Value) Value { return Ite(a[0].(*T), StrConst("true"), StrConst("false")) }))
	reg("strconv.Quote", pure(func(e *Engine, a []Value) Value { return UF("quote", StrS, strT(a[0])) }))
	reg("strconv.ParseUint", pure(func(e *Engine, a []Value) Value {
		base, bits := constInt(a[1], "base"), constInt(a[2], "bits")
		if base != 10 || bits != 64 {
			if s, ok := goStr(a[0]); ok {
				v, err := strconv.ParseUint(s, base, bits)
				if err != nil {
					return Tuple{BVConst(0, 64), e.newErr("strconv.ParseUint")}
				}
				return Tuple{BVConst(v, 64), nil}
			}
			panic(inconclusive{"ParseUint base/bits"})
		}
		val, ok := e.parseUintUF(strT(a[0]))
		if e.branch(ok) {
			return Tuple{val, nil}
		}
		return Tuple{BVConst(0, 64), e.newErr("strconv.ParseUint")}
	}))
	reg("strconv.Atoi", pure(func(e *Engine, a []Value) Value {
		if s, ok := goStr(a[0]); ok {
			v, err := strconv.Atoi(s)
			if err != nil {
				return Tuple{BVConst(0, 64), e.newErr("strconv.Atoi")}
			}
			return Tuple{BVConst(uint64(v), 64), nil}
		}
		panic(inconclusive{"symbolic Atoi"})
	}))
	// regexp
	reg("regexp.MustCompile", pure(func(e *Engine, a []Value) Value {
		return &PtrVal{&Loc{Extra: &RegexVal{Pat: constStr(a[0], "regexp pattern")}}}
	}))
	reg("(*regexp.Regexp).MatchString", pure(func(e *Engine, a []Value) Value {
		rv := a[0].(*PtrVal).L.Extra.(*RegexVal)
		s := strT(a[1])
		if c, ok := goStr(s); ok {
			return BoolConst(regexp.MustCompile(rv.Pat).MatchString(c))
		}
		t, err := regexMatchTerm(rv.Pat, s)
		if err != nil {
			panic(inconclusive{"regex: " + err.Error()})
		}
		return t
	}))
	reg("(*regexp.Regexp).Match", intrinsics["(*regexp.Regexp).MatchString"])
	reg("regexp.MatchString", pure(func(e *Engine, a []Value) Value {
		t, err := regexMatchTerm(constStr(a[0], "pattern"), strT(a[1]))
		if err != nil {
			panic(inconclusive{"regex: " + err.Error()})
		}
		return Tuple{t, nil}
	}))
	// slices
	reg("slices.Contains", pure(func(e *Engine, a []Value) Value {
		r := tFalse
		for _, l := range sliceElems(a[0]) {
			r = Or(r, e.valueEq(load(l), a[1]))
		}
		return r
	}))
	reg("slices.Clone", pure(func(e *Engine, a []Value) Value {
		if t, ok := a[0].(*T); ok {
			return t
		}
		s, _ := a[0].(*SliceVal)
		if s == nil {
			return a[0]
		}
		arr := &Loc{T: s.Arr.T}
		for i := 0; i < s.Len; i++ {
			src := s.Arr.Elems[s.Off+i]
			nl := e.newLoc(src.T)
			store(nl, load(src))
			arr.Elems = append(arr.Elems, nl)
		}
		if e.localLocs != nil {
			e.markLocal(arr)
		}
		return &SliceVal{Arr: arr, Len: s.Len, Cap: s.Len}
	}))
	reg("slices.Equal", pure(func(e *Engine, a []Value) Value {
		x, y := sliceElems(a[0]), sliceElems(a[1])
		if len(x) != len(y) {
			return tFalse
		}
		r := tTrue
		for i := range x {
			r = And(r, e.valueEq(load(x[i]), load(y[i])))
		}
		return r
	}))
	reg("slices.Delete", pure(func(e *Engine, a []Value) Value {
		sl, _ := a[0].(*SliceVal)
		i, j := constInt(a[1], "slices.Delete i"), constInt(a[2], "slices.Delete j")
		if sl == nil || i < 0 || j > sl.Len || i > j {
			e.goPanicf("slices.Delete: index out of range")
		}
		var vals []Value
		for k := 0; k < sl.Len; k++ {
			if k >= i && k < j {
				continue
			}
			vals = append(vals, load(sl.Arr.Elems[sl.Off+k]))
		}
		et := sl.Arr.T.(*types.Array).Elem()
		return e.mkSlice(et, vals)
	}))
	reg("slices.ContainsFunc", func(e *Engine, fn *ssa.Function, a []Value) Value {
		r := tFalse
		for _, l := range sliceElems(a[0]) {
			v := e.applyValue(&frame{fn: fn}, nil, a[1], []Value{load(l)})
			r = Or(r, v.(*T))
		}
		return r
	})
	reg("slices.Sort", func(e *Engine, fn *ssa.Function, a []Value) Value {
		// symbolic compare-exchange network (bubble sort) for short slices of strings / integers
		els := sliceElems(a[0])
		if len(els) > 5 {
			panic(inconclusive{"slices.Sort of more than 5 symbolic elements"})
		}
		if e.inMerged > 0 {
			panic(mergeAbort{"store to non-local (sort)"})
		}
		vals := make([]*T, len(els))
		for i, l := range els {
			t, ok := load(l).(*T)
			if !ok {
				panic(inconclusive{"slices.Sort of non-scalar elements"})
			}
			vals[i] = t
		}
		less := func(x, y *T) *T {
			if x.Sort.K == SStr {
				return StrLt(x, y)
			}
			return BVCmp("bvult", x, y)
		}
		for i := 0; i < len(vals); i++ {
			for j := 0; j+1 < len(vals)-i; j++ {
				sw := less(vals[j+1], vals[j])
				lo, hi := Ite(sw, vals[j+1], vals[j]), Ite(sw, vals[j], vals[j+1])
				vals[j], vals[j+1] = lo, hi
			}
		}
		for i, l := range els {
			store(l, vals[i])
		}
		return nil
	})
	reg("slices.Reverse", func(e *Engine, fn *ssa.Function, a []Value) Value {
		e.effect("reverse")
		x := sliceElems(a[0])
		vals := make([]Value, len(x))
		for i := range x {
			vals[i] = load(x[i])
		}
		for i := range x {
			store(x[i], vals[len(x)-1-i])
		}
		return nil
	})
}

func isErrorIface(iv *IfaceVal) bool {
	if iv.T == nil {
		return false
	}
	ms := types.NewMethodSet(iv.T)
	for i := 0; i < ms.Len(); i++ {
		if ms.At(i).Obj().Name() == "Error" {
			return true
		}
	}
	return false
}

// split models strings.Split / SplitN: forks on the number of parts (bounded), left-to-right first occurrence.
func (e *Engine) split(s, sep *T, n int) Value {
	if cs, ok := goStr(s); ok {
		if csep, ok := goStr(sep); ok {
			var parts []string
			if n < 0 {
				parts = strings.Split(cs, csep)
			} else {
				parts = strings.SplitN(cs, csep, n)
			}
			vals := make([]Value, len(parts))
			for i, p := range parts {
				vals[i] = StrConst(p)
			}
			return e.mkSlice(types.Typ[types.String], vals)
		}
	}
	csep, ok := goStr(sep)
	if !ok || csep == "" {
		panic(inconclusive{"strings.Split with symbolic or empty separator"})
	}
	if n == 0 {
		return (*SliceVal)(nil)
	}
	if pieces, ok := e.syntacticSplit(s, csep); ok && (n < 0 || len(pieces) <= n) {
		vals := make([]Value, len(pieces))
		for i, p := range pieces {
			vals[i] = p
		}
		return e.mkSlice(types.Typ[types.String], vals)
	}
	maxParts := e.splitBound
	if n > 0 && n < maxParts {
		maxParts = n
	}
	// structural shortcut: s is a concat whose pieces are known to be sep-free or constants -> still generic below
	var parts []Value
	rest := s
	sepLen := IntConst(int64(len(csep)))
	for {
		if len(parts)+1 == maxParts && n > 0 && n == maxParts {
			// SplitN: last part is the unsplit remainder
			parts = append(parts, rest)
			break
		}
		has := StrContains(rest, sep)
		if !e.branch(has) {
			parts = append(parts, rest)
			break
		}
		if len(parts)+1 >= maxParts {
			// more separators than the bound allows: unwinding obligation fails on this path
			e.obligs = append(e.obligs, Obligation{Harness: e.harness, Kind: "unwind", Label: fmt.Sprintf("strings.Split produces more than %d parts", maxParts), Verdict: "sat", Path: e.pathNo})
			panic(pathEnd{})
		}
		// introduce the pieces: rest = head ++ sep ++ tail, head sep-free
		head := e.Fresh("split.head", StrS)
		tail := e.Fresh("split.tail", StrS)
		e.pc = append(e.pc, Eq(rest, Concat(head, sep, tail)), Not(StrContains(Concat(head, StrConst(csep[:len(csep)-1])), sep)))
		_ = sepLen
		parts = append(parts, head)
		rest = tail
	}
	return e.mkSlice(types.Typ[types.String], parts)
}

// sprintf with a constant format string.
func (e *Engine) sprintf(format Value, args Value) *T {
	f, ok := goStr(format)
	if !ok {
		return UF("fmtdyn", StrS, strT(format))
	}
	elems := sliceElems(args)
	var parts []*T
	lit := ""
	ai := 0
	flush := func() {
		if lit != "" {
			parts = append(parts, StrConst(lit))
			lit = ""
		}
	}
	for i := 0; i < len(f); i++ {
		if f[i] != '%' {
			lit += string(f[i])
			continue
		}
		i++
		if i >= len(f) {
			break
		}
		if f[i] == '%' {
			lit += "%"
			continue
		}
		flush()
		// skip flags/width
		for i < len(f) && strings.ContainsRune("+-# 0123456789.", rune(f[i])) {
			i++
		}
		if ai >= len(elems) {
			parts = append(parts, StrConst("%!"+string(f[i])+"(MISSING)"))
			continue
		}
		iv, _ := load(elems[ai]).(*IfaceVal)
		ai++
		parts = append(parts, e.fmtArg(f[i], iv))
	}
	flush()
	return Concat(parts...)
}

func (e *Engine) fmtArg(verb byte, iv *IfaceVal) *T {
	if iv == nil {
		return StrConst("<nil>")
	}
	if iv.T != nil && (verb == 's' || verb == 'v' || verb == 'q') {
		// fmt uses Error() / String() when the operand implements error / Stringer
		for _, mname := range []string{"Error", "String"} {
			if sel := e.sh.prog.MethodSets.MethodSet(iv.T).Lookup(nil, mname); sel != nil {
				if sig, ok := sel.Type().(*types.Signature); ok && sig.Params().Len() == 0 && sig.Results().Len() == 1 && isStringType(sig.Results().At(0).Type()) {
					if m := e.sh.prog.MethodValue(sel); m != nil {
						if r, ok := e.call(m, []Value{iv.V}).(*T); ok && r.Sort.K == SStr {
							return r
						}
					}
				}
			}
		}
	}
	if iv.T != nil && isByteSlice(iv.T) {
		// []byte operands print like strings for %s / %v-as-bytes is a list, only %s %x %X %q are supported here
		bz := toSeq(iv.V)
		switch verb {
		case 's':
			return bz
		case 'x':
			return e.hexUF(bz, false)
		case 'X':
			return e.hexUF(bz, true)
		case 'q':
			return UF("quote", StrS, bz)
		}
		return StrConst("<bytes>")
	}
	switch v := iv.V.(type) {
	case *T:
		switch v.Sort.K {
		case SStr:
			switch verb {
			case 's', 'v':
				return v
			case 'x':
				return e.hexUF(v, false)
			case 'X':
				return e.hexUF(v, true)
			case 'q':
				return UF("quote", StrS, v)
			}
		case SBV:
			switch verb {
			case 'd', 'v':
				if iv.T != nil && isSigned(iv.T) {
					return e.decSigned(v)
				}
				return e.decUF(v)
			case 's':
				// enum String() etc. would be a method; plain ints with %s print %!s(...)
				return UF("fmt_s_int", StrS, v)
			case 'x', 'X':
				return UF("fmt_hex_int", StrS, v)
			}
		case SBool:
			return Ite(v, StrConst("true"), StrConst("false"))
		}
	case *ErrVal:
		return StrConst("<error>")
	}
	// Stringer / error / other values: opaque text (only used in messages)
	return StrConst("<" + fmt.Sprintf("%T", iv.V) + ">")
}

// hexUF: hex encoding as UF pair with inverse axiom.
func (e *Engine) hexUF(v *T, upper bool) *T {
	if c, ok := goStr(v); ok {
		if upper {
			return StrConst(fmt.Sprintf("%X", c))
		}
		return StrConst(fmt.Sprintf("%x", c))
	}
	name := "hexenc"
	if upper {
		name = "hexencU"
	}
	h := UF(name, StrS, v)
	e.addAxiom(fmt.Sprintf("%s:%d", name, v.id), AndN(
		Eq(UF("hexdec", StrS, h), v),
		UF("hex_ok", BoolS, h),
		Eq(mk("str.len", IntS, h), IntMul(IntConst(2), StrLen(v))),
	))
	return h
}

// sepFree: the term can never contain the single-byte separator.
func (e *Engine) sepFree(t *T, sep byte) bool {
	// a fact on the path: not (str.contains t sep)
	want := Not(StrContains(t, StrConst(string(sep))))
	for _, c := range e.pc {
		if c == want {
			return true
		}
	}
	if t.IsConst() {
		return !strings.Contains(t.Str, string(sep))
	}
	if t.Op == "uf" && t.Name == "dec" {
		return sep < '0' || sep > '9'
	}
	if t.Op == "uf" && (t.Name == "hexenc" || t.Name == "hexencU") {
		return !(sep >= '0' && sep <= '9' || sep >= 'a' && sep <= 'f' || sep >= 'A' && sep <= 'F')
	}
	if t.Op == "ite" {
		return e.sepFree(t.Args[1], sep) && e.sepFree(t.Args[2], sep)
	}
	return false
}

// syntacticSplit splits a concatenation whose symbolic pieces are known to be separator-free.
func (e *Engine) syntacticSplit(s *T, sep string) ([]*T, bool) {
	if len(sep) == 0 {
		return nil, false
	}
	parts := []*T{s}
	if s.Op == "str.++" {
		parts = s.Args
	}
	if len(sep) > 1 {
		// multi-byte separator: decided syntactically when every byte of the separator is excluded from every symbolic
		// piece (then an occurrence cannot touch a symbolic piece, so all occurrences lie inside constant pieces)
		for _, p := range parts {
			if p.IsConst() {
				continue
			}
			for i := 0; i < len(sep); i++ {
				if !e.sepFree(p, sep[i]) {
					return nil, false
				}
			}
		}
	}
	var out []*T
	cur := []*T{}
	for _, p := range parts {
		if p.IsConst() {
			segs := strings.Split(p.Str, sep)
			for i, sg := range segs {
				if i > 0 {
					out = append(out, Concat(cur...))
					cur = []*T{}
				}
				cur = append(cur, StrConst(sg))
			}
			continue
		}
		if len(sep) == 1 && !e.sepFree(p, sep[0]) {
			return nil, false
		}
		cur = append(cur, p)
	}
	out = append(out, Concat(cur...))
	return out, true
}
