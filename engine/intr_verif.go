// Intrinsics for the harness API (verifharness/verif) and obligation handling.
package main

import (
	"crypto/sha256"
	"fmt"
	"os"
	"go/types"
	"strings"
	"time"

	"golang.org/x/tools/go/ssa"
)

var intrinsics = map[string]intrinsic{}

func lookupIntrinsic(name string) intrinsic {
	if f, ok := intrinsics[name]; ok {
		return f
	}
	if strings.Contains(name, "[") {
		if f, ok := intrinsics[normName(name)]; ok {
			return f
		}
	}
	return nil
}

func reg(name string, f intrinsic) { intrinsics[name] = f }

const vp = "verifharness/verif."

// modelOf turns the positional get-value answer into a replayable counterexample:
// first the declared variables, then (key, initial value) of every store read, then every decoded leaf.
func (e *Engine) modelOf(r QueryResult, names []string) *CexModel {
	kvs := parseModel(r.Model)
	cm := &CexModel{Vars: ModelMap{}}
	i := 0
	for _, n := range names {
		if i >= len(kvs) {
			return cm
		}
		if !strings.HasPrefix(n, "store0:") {
			cm.Vars[n] = kvs[i].Val.JSON()
		}
		i++
	}
	w := e.world
	for _, rd := range w.readLog {
		if i+1 >= len(kvs) {
			return cm
		}
		cm.Reads = append(cm.Reads, ReadRec{Store: rd.store, Key: fmt.Sprintf("%x", kvs[i].Val.S), Val: fmt.Sprintf("%x", kvs[i+1].Val.S)})
		i += 2
	}
	for _, d := range w.decodeLog {
		if i >= len(kvs) {
			return cm
		}
		rec := DecodeRec{Bz: fmt.Sprintf("%x", kvs[i].Val.S), Type: d.typ, Fields: ModelMap{}}
		i++
		for _, l := range d.leaves {
			if i >= len(kvs) {
				break
			}
			rec.Fields[l.path] = kvs[i].Val.JSON()
			i++
		}
		cm.Decodes = append(cm.Decodes, rec)
	}
	for k, v := range w.choiceValues {
		cm.Vars[k] = v
	}
	return cm
}

// checkObligation discharges prop under the current path condition.
func (e *Engine) checkObligation(kind, label string, prop *T) {
	e.effect("obligation")
	t0 := time.Now()
	ob := Obligation{Harness: e.harness, Kind: kind, Label: label, Path: e.pathNo}
	if prop.IsTrue() {
		ob.Verdict = "unsat"
		ob.Solver = "syntactic"
		e.obligs = append(e.obligs, ob)
		return
	}
	if e.failedLabels[kind+":"+label] || e.unknownLabels[kind+":"+label] >= 3 {
		// a replayable counterexample for this obligation already exists (or it has repeatedly timed out): only
		// record a quick verdict on this path, so a broken tree is reported fast
		quick := 2000
		if !e.failedLabels[kind+":"+label] {
			quick = e.cfg.AssertTimeoutMs / 4
		}
		r, _, _ := e.solve([]*T{Not(prop)}, false, quick, nil)
		ob.Verdict, ob.Solver, ob.Ms = r.Res, r.Solver, time.Since(t0).Milliseconds()
		e.obligs = append(e.obligs, ob)
		return
	}
	// Dropping conjuncts of the path condition keeps "unsat" sound. Regular-expression memberships (identifier
	// character sets) are rarely needed for a proof but regularly stall the string solvers: try without them first.
	if weak, dropped := e.withoutRegex(); dropped > 0 {
		script, _, _ := buildScript(append(weak, Not(prop)), nil)
		if wr := e.pf.Check(script, "", 5000); wr.Res == "unsat" {
			ob.Verdict, ob.Solver, ob.Ms = "unsat", wr.Solver+" (regex facts dropped)", time.Since(t0).Milliseconds()
			e.obligs = append(e.obligs, ob)
			return
		}
	}
	r, names, rounds := e.solveConcrete([]*T{Not(prop)}, e.cfg.AssertTimeoutMs)
	if rounds > 0 {
		ob.Site = fmt.Sprintf("concretisation rounds: %d", rounds)
	}
	ob.Verdict = r.Res
	ob.Solver = r.Solver
	ob.Ms = time.Since(t0).Milliseconds()
	if r.Res == "sat" {
		ob.Model = e.modelOf(r, names)
		e.failedLabels[kind+":"+label] = true
	} else if r.Res != "unsat" {
		if e.unknownLabels == nil {
			e.unknownLabels = map[string]int{}
		}
		e.unknownLabels[kind+":"+label]++
	}
	e.obligs = append(e.obligs, ob)
}

func init() {
	sym := func(s Sort) intrinsic {
		return func(e *Engine, fn *ssa.Function, a []Value) Value {
			return e.Fresh(constStr(a[0], "symbol name"), s)
		}
	}
	reg(vp+"Uint64", sym(BVS(64)))
	reg(vp+"Int64", sym(BVS(64)))
	reg(vp+"Int", sym(BVS(64)))
	reg(vp+"Uint32", sym(BVS(32)))
	reg(vp+"Int32", sym(BVS(32)))
	reg(vp+"Byte", sym(BVS(8)))
	reg(vp+"Bool", sym(BoolS))
	reg(vp+"String", sym(StrS))
	reg(vp+"Bytes", sym(StrS))
	reg(vp+"BytesN", func(e *Engine, fn *ssa.Function, a []Value) Value {
		name := constStr(a[0], "name")
		n := constInt(a[1], "BytesN n")
		vals := make([]Value, n)
		for i := range vals {
			vals[i] = e.Fresh(fmt.Sprintf("%s[%d]", name, i), BVS(8))
		}
		return e.mkSlice(types.Typ[types.Uint8], vals)
	})
	reg(vp+"Len", func(e *Engine, fn *ssa.Function, a []Value) Value {
		name := e.freshName(constStr(a[0], "name"))
		lo, hi := constInt(a[1], "Len lo"), constInt(a[2], "Len hi")
		k := e.choose(hi-lo+1, func(int) *T { return nil })
		e.world.choiceValues[name] = map[string]interface{}{"bv": fmt.Sprint(lo + k), "w": 64}
		return BVConst(uint64(lo+k), 64)
	})
	reg(vp+"Choice", func(e *Engine, fn *ssa.Function, a []Value) Value {
		name := e.freshName(constStr(a[0], "name"))
		n := constInt(a[1], "Choice n")
		k := e.choose(n, func(int) *T { return nil })
		e.world.choiceValues[name] = map[string]interface{}{"bv": fmt.Sprint(k), "w": 64}
		return BVConst(uint64(k), 64)
	})
	reg(vp+"Assume", func(e *Engine, fn *ssa.Function, a []Value) Value {
		e.effect("assume")
		c := a[0].(*T)
		if c.IsTrue() {
			return nil
		}
		if c.IsFalse() {
			panic(pathEnd{})
		}
		e.pc = append(e.pc, c)
		if e.pos >= len(e.decisions) { // not replaying a prefix that was already checked
			if r, _, _ := e.solve(nil, false, e.cfg.BranchTimeoutMs, nil); r.Res == "unsat" {
				if e.trace {
					fmt.Fprintf(os.Stderr, "  [assume infeasible p%d] %s\n", e.pathNo, c.String())
				}
				panic(pathEnd{})
			}
		}
		return nil
	})
	reg(vp+"Assert", func(e *Engine, fn *ssa.Function, a []Value) Value {
		e.checkObligation("assert", constStr(a[1], "assert label"), a[0].(*T))
		return nil
	})
	reg(vp+"Reach", func(e *Engine, fn *ssa.Function, a []Value) Value {
		e.effect("reach")
		label := constStr(a[0], "reach label")
		if e.reachSeen[label] {
			return nil // one satisfiable witness per label is enough
		}
		t0 := time.Now()
		r, names, _ := e.solve(nil, true, e.cfg.AssertTimeoutMs, e.world.modelTerms())
		if r.Res == "sat" {
			e.reachSeen[label] = true
			ob := Obligation{Harness: e.harness, Kind: "reach", Label: label, Verdict: "sat", Solver: r.Solver, Ms: time.Since(t0).Milliseconds(), Path: e.pathNo, Model: e.modelOf(r, names)}
			e.obligs = append(e.obligs, ob)
		} else {
			e.pathLabels = append(e.pathLabels, "reach:"+label+"="+r.Res)
			e.reachPending[label] = r.Res
		}
		return nil
	})
	noop := func(e *Engine, fn *ssa.Function, a []Value) Value { return nil }
	reg(vp+"RegisterType", noop)
	reg(vp+"MountStores", noop)
	reg(vp+"ExactBigEndian", func(e *Engine, fn *ssa.Function, a []Value) Value {
		e.exactBE = a[0].(*T).IsTrue()
		return nil
	})
	reg(vp+"ExactDecimalLengths", func(e *Engine, fn *ssa.Function, a []Value) Value {
		e.exactDecLen = a[0].(*T).IsTrue()
		return nil
	})
	reg(vp+"And", func(e *Engine, fn *ssa.Function, a []Value) Value { return And(a[0].(*T), a[1].(*T)) })
	reg(vp+"Or", func(e *Engine, fn *ssa.Function, a []Value) Value { return Or(a[0].(*T), a[1].(*T)) })
	reg(vp+"Implies", func(e *Engine, fn *ssa.Function, a []Value) Value { return Implies(a[0].(*T), a[1].(*T)) })
	reg(vp+"Thorough", func(e *Engine, fn *ssa.Function, a []Value) Value { return BoolConst(e.cfg.Thorough) })
	reg(vp+"CollisionFree", func(e *Engine, fn *ssa.Function, a []Value) Value {
		e.collisionFree = a[0].(*T).IsTrue()
		return nil
	})
	reg(vp+"Note", func(e *Engine, fn *ssa.Function, a []Value) Value {
		e.note(constStr(a[0], "note"))
		return nil
	})
	reg(vp+"NoPanic", func(e *Engine, fn *ssa.Function, a []Value) Value {
		e.noPanic = true
		return nil
	})
	reg(vp+"PermuteMaps", func(e *Engine, fn *ssa.Function, a []Value) Value {
		e.permute = a[0].(*T).IsTrue()
		return nil
	})
	reg(vp+"Unwind", func(e *Engine, fn *ssa.Function, a []Value) Value {
		e.cfg.Unwind = constInt(a[0], "unwind")
		return nil
	})
	reg(vp+"Panics", func(e *Engine, fn *ssa.Function, a []Value) (ret Value) {
		e.effect("panics")
		c := a[0].(*Closure)
		ret = tFalse
		func() {
			defer func() {
				if r := recover(); r != nil {
					if gp, ok := r.(*goPanic); ok {
						e.lastPanic = gp
						ret = tTrue
						return
					}
					panic(r)
				}
			}()
			e.callFree(c.Fn, nil, c.Bind)
		}()
		return ret
	})
	reg(vp+"Sha256", func(e *Engine, fn *ssa.Function, a []Value) Value { return e.hashUF("sha256", toSeq(a[0]), 32) })
	reg(vp+"DecU64", func(e *Engine, fn *ssa.Function, a []Value) Value { return e.decUF(a[0].(*T)) })
}

// hashUF: uninterpreted hash with fixed output length.
func (e *Engine) hashUF(name string, arg *T, n int) *T {
	if c, ok := goStr(arg); ok && name == "sha256" {
		h := sha256.Sum256([]byte(c))
		return StrConst(string(h[:]))
	}
	t := UF(name, StrS, arg)
	t.FixLen = n
	e.addAxiom(fmt.Sprintf("len:%d", t.id), Eq(mk("str.len", IntS, t), IntConst(int64(n))))
	return t
}

func hasRegex(t *T, seen map[*T]bool) bool {
	if seen[t] {
		return false
	}
	seen[t] = true
	if t.Op == "str.in_re" || (t.Op == "uf" && t.Name == "trimspace") {
		return true
	}
	for _, a := range t.Args {
		if hasRegex(a, seen) {
			return true
		}
	}
	return false
}

// withoutRegex returns axioms+pc minus every conjunct that mentions a regular-expression membership.
func (e *Engine) withoutRegex() ([]*T, int) {
	var out []*T
	dropped := 0
	for _, lst := range [][]*T{e.axioms, e.pc} {
		for _, c := range lst {
			if hasRegex(c, map[*T]bool{}) {
				dropped++
				continue
			}
			out = append(out, c)
		}
	}
	if e.collisionFree {
		out = append(out, collisionAxioms(out)...)
	}
	return out, dropped
}
