// Intrinsics for a few ibc-go / SDK helpers that are environment rather than protocol logic:
// reflection guards in constructors, telemetry, event emission, logging, bech32.
package main

import (
	"fmt"
	"regexp"
	"strings"

	"golang.org/x/tools/go/ssa"
)

const ibcgo = "github.com/cosmos/ibc-go/v11/"

// envNoop reports functions of ibc-go that only emit events / telemetry / logs.
func envNoop(name string, fn *ssa.Function) bool {
	if strings.HasPrefix(name, "github.com/cosmos/cosmos-sdk/telemetry.") || strings.HasPrefix(name, "github.com/hashicorp/go-metrics.") {
		return true
	}
	if !strings.HasPrefix(name, ibcgo) && !strings.HasPrefix(name, "(*"+ibcgo) && !strings.HasPrefix(name, "("+ibcgo) {
		return false
	}
	if strings.Contains(name, "/telemetry.") {
		return true
	}
	n := fn.Name()
	if (strings.HasPrefix(n, "emit") || strings.HasPrefix(n, "Emit")) && fn.Signature.Results().Len() == 0 {
		return true
	}
	if n == "Logger" && fn.Signature.Results().Len() == 1 {
		return true
	}
	return false
}

// values of package-level variables of third-party packages (their initialisers are not executed)
var thirdPartyGlobals = map[string]func(e *Engine) Value{}

func regexGlobal(pat string) func(e *Engine) Value {
	return func(e *Engine) Value {
		return &Closure{Intr: func(e *Engine, args []Value) Value {
			s := toSeq(args[0])
			if c, ok := goStr(s); ok {
				return BoolConst(regexp.MustCompile(pat).MatchString(c))
			}
			t, err := regexMatchTerm(pat, s)
			if err != nil {
				panic(inconclusive{"regex: " + err.Error()})
			}
			return t
		}}
	}
}

// denomShape decides sdk.ValidateDenom syntactically for "<const>" ++ hex(<fixed-length bytes>) shapes ("ibc/" + hash).
func denomShape(s *T) (bool, bool) {
	if s.Op != "str.++" || len(s.Args) == 0 || !s.Args[0].IsConst() || s.Args[0].Str == "" {
		return false, false
	}
	n := 0
	for i, a := range s.Args {
		switch {
		case a.IsConst():
			if !regexp.MustCompile(`^[a-zA-Z0-9/:._-]*$`).MatchString(a.Str) {
				return false, true
			}
			if i == 0 && !regexp.MustCompile(`^[a-zA-Z]`).MatchString(a.Str) {
				return false, true
			}
			n += len(a.Str)
		case a.Op == "uf" && (a.Name == "hexenc" || a.Name == "hexencU") && a.Args[0].FixLen > 0:
			n += 2 * a.Args[0].FixLen
		default:
			return false, false
		}
	}
	return n >= 3 && n <= 128, true
}

// jsonEnc is the JSON encoder stand-in over the structural encoding: a JSON object, hence starting with '{'.
func jsonEnc(e *Engine, enc *T) *T {
	j := UF("json_enc", StrS, enc)
	e.addAxiom(fmt.Sprintf("jsonenc:%d", j.id), StrPrefixOf(StrConst("{"), j))
	return j
}

func init() {
	thirdPartyGlobals["github.com/cosmos/cosmos-sdk/types.IsAlphaNumeric"] = regexGlobal(`^[a-zA-Z0-9]+$`)
	thirdPartyGlobals["github.com/cosmos/cosmos-sdk/types.IsAlphaLower"] = regexGlobal(`^[a-z]+$`)
	thirdPartyGlobals["github.com/cosmos/cosmos-sdk/types.IsAlphaUpper"] = regexGlobal(`^[A-Z]+$`)
	thirdPartyGlobals["github.com/cosmos/cosmos-sdk/types.IsAlpha"] = regexGlobal(`^[a-zA-Z]+$`)
	thirdPartyGlobals["github.com/cosmos/cosmos-sdk/types.IsNumeric"] = regexGlobal(`^[0-9]+$`)
	// ParseChainID("chain-"+dec(rev)) with rev >= 1 is rev (the chain-id format NewCtx produces); anything else runs the real code
	reg(ibcgo+"modules/core/02-client/types.ParseChainID", func(e *Engine, fn *ssa.Function, a []Value) Value {
		if rev, ok := e.world.chainRev[toSeq(a[0])]; ok {
			return rev
		}
		return e.callBody(fn, a)
	})
	// Identifier validators, opt-in abstraction (verif.AbstractIdentifiers): an uninterpreted predicate that implies the
	// length, non-blank and separator-free facts; counterexamples are concretised against the real rule.
	reg(ibcgo+"modules/core/24-host.defaultIdentifierValidator", func(e *Engine, fn *ssa.Function, a []Value) Value {
		id := toSeq(a[0])
		lo, okLo := constU64(a[1])
		hi, okHi := constU64(a[2])
		if !e.abstractIDs || id.IsConst() || !okLo || !okHi {
			return e.callBody(fn, a)
		}
		ok := UF(fmt.Sprintf("idvalid_%d_%d", lo, hi), BoolS, id)
		n := StrLen(id)
		e.addAxiom(fmt.Sprintf("idvalid:%d:%d:%d", id.id, lo, hi), Implies(ok, AndN(
			Not(Eq(id, StrConst(""))), Not(StrContains(id, StrConst("/"))),
			IntCmp(">=", n, IntConst(int64(lo))), IntCmp("<=", n, IntConst(int64(hi))))))
		if e.branch(ok) {
			return nil
		}
		return e.newErr("invalid identifier")
	})
	// Hop syntax, opt-in abstraction (verif.AbstractHopSyntax): IsValidChannelID / IsValidClientID on symbolic strings
	// become uninterpreted predicates that imply their format regular expression (a necessary condition; the numeric
	// range of the sequence is left to concretisation against the real functions).
	hopPred := func(uf, re string) intrinsic {
		return func(e *Engine, fn *ssa.Function, a []Value) Value {
			s := toSeq(a[0])
			if !e.abstractHops || s.IsConst() {
				return e.callBody(fn, a)
			}
			ok := UF(uf, BoolS, s)
			t, err := regexMatchTerm(re, s)
			if err != nil {
				panic(inconclusive{"regex: " + err.Error()})
			}
			e.addAxiom(fmt.Sprintf("%s:%d", uf, s.id), Implies(ok, t))
			return ok
		}
	}
	reg(ibcgo+"modules/core/04-channel/types.IsValidChannelID", hopPred("chanid_ok", `^channel-[0-9]{1,20}$`))
	reg(ibcgo+"modules/core/02-client/types.IsValidClientID", hopPred("clientid_ok", `^\w+([\w-]+\w)?-[0-9]{1,20}$`))
	reg(vp+"AbstractHopSyntax", func(e *Engine, fn *ssa.Function, a []Value) Value {
		e.abstractHops = a[0].(*T).IsTrue()
		return nil
	})
	reg(vp+"LightDecimals", func(e *Engine, fn *ssa.Function, a []Value) Value {
		e.lightDec = a[0].(*T).IsTrue()
		return nil
	})
	reg(vp+"AbstractIdentifiers", func(e *Engine, fn *ssa.Function, a []Value) Value {
		e.abstractIDs = a[0].(*T).IsTrue()
		return nil
	})
	reg("github.com/cosmos/gogoproto/proto.EnumName", func(e *Engine, fn *ssa.Function, a []Value) Value { return StrConst("<enum>") })
	reg("github.com/cosmos/gogoproto/proto.CompactTextString", func(e *Engine, fn *ssa.Function, a []Value) Value { return StrConst("<proto>") })
	// JSON side of the proto codec: decoding relayer-supplied bytes is modelled as failing (the code paths that
	// only run after a successful JSON decode can only reject more); encoding is an uninterpreted function.
	// jsonTarget follows pointers / interfaces down to the struct cell a JSON decoder fills.
	var jsonTarget func(v Value) *Loc
	jsonTarget = func(v Value) *Loc {
		switch x := v.(type) {
		case *IfaceVal:
			if x == nil {
				return nil
			}
			return jsonTarget(x.V)
		case *PtrVal:
			if x == nil {
				return nil
			}
			if x.L.Fields != nil {
				return x.L
			}
			return jsonTarget(load(x.L))
		}
		return nil
	}
	// decoding JSON: bytes produced by the JSON encoder on this path decode to the encoded value (canonical encodings);
	// any other bytes are modelled as a decoding error (non-canonical / malformed JSON is outside the claim).
	jsonDecode := func(e *Engine, bz *T, target Value) Value {
		if bz.Op == "uf" && bz.Name == "json_enc" && e.encInfo[bz.Args[0]] != nil {
			if l := jsonTarget(target); l != nil {
				e.decodeInto(l, bz.Args[0], "_"+shortType(l.T), 0)
				return nil
			}
		}
		e.note("JSON decoding of bytes not produced by the JSON encoder is modelled as an error (non-canonical JSON is outside the claim)")
		return e.newErr("json")
	}
	reg("(*github.com/cosmos/cosmos-sdk/codec.ProtoCodec).UnmarshalJSON", func(e *Engine, fn *ssa.Function, a []Value) Value {
		return jsonDecode(e, toSeq(a[1]), a[2])
	})
	reg("encoding/json.Unmarshal", func(e *Engine, fn *ssa.Function, a []Value) Value {
		return jsonDecode(e, toSeq(a[0]), a[1])
	})
	reg("encoding/json.Marshal", func(e *Engine, fn *ssa.Function, a []Value) Value {
		iv, _ := a[0].(*IfaceVal)
		if iv == nil {
			return Tuple{StrConst("null"), nil}
		}
		switch x := iv.V.(type) {
		case *PtrVal:
			if x != nil {
				return Tuple{jsonEnc(e, e.encode(load(x.L), x.L.T, shortType(x.L.T))), nil}
			}
		case *StructVal:
			return Tuple{jsonEnc(e, e.encode(x, iv.T, shortType(iv.T))), nil}
		}
		panic(inconclusive{"json.Marshal of " + iv.T.String()})
	})
	// canonical (sorted) JSON of an encoder output is that output (the encoder stand-in is the canonical form)
	reg("github.com/cosmos/cosmos-sdk/types.MustSortJSON", func(e *Engine, fn *ssa.Function, a []Value) Value {
		s := toSeq(a[0])
		if s.Op == "uf" && s.Name == "json_enc" {
			return s
		}
		return UF("json_sort", StrS, s)
	})
	reg("(*github.com/cosmos/cosmos-sdk/codec.ProtoCodec).MustMarshalJSON", func(e *Engine, fn *ssa.Function, a []Value) Value {
		iv, _ := a[1].(*IfaceVal)
		if iv == nil {
			return StrConst("null")
		}
		if p, ok := iv.V.(*PtrVal); ok && p != nil {
			return jsonEnc(e, e.encode(load(p.L), p.L.T, shortType(p.L.T)))
		}
		panic(inconclusive{"MustMarshalJSON of non-pointer"})
	})
	reg("github.com/cosmos/cosmos-sdk/types.ValidateDenom", func(e *Engine, fn *ssa.Function, a []Value) Value {
		s := toSeq(a[0])
		var ok *T
		if c, isC := goStr(s); isC {
			ok = BoolConst(regexp.MustCompile(`^[a-zA-Z][a-zA-Z0-9/:._-]{2,127}$`).MatchString(c))
		} else if v, known := denomShape(s); known {
			ok = BoolConst(v)
		} else {
			t, err := regexMatchTerm(`^[a-zA-Z][a-zA-Z0-9/:._-]{2,127}$`, s)
			if err != nil {
				panic(inconclusive{"regex: " + err.Error()})
			}
			ok = t
		}
		if e.branch(ok) {
			return nil
		}
		return e.newErr("invalid denom")
	})
	reg(ibcgo+"modules/core/keeper.isEmpty", func(e *Engine, fn *ssa.Function, a []Value) Value {
		return BoolConst(isNilVal(a[0]))
	})
	// bech32 account addresses: uninterpreted pair with inverse
	reg("github.com/cosmos/cosmos-sdk/types.AccAddressFromBech32", func(e *Engine, fn *ssa.Function, a []Value) Value {
		s := toSeq(a[0])
		if c, isC := goStr(s); isC {
			if bz, ok := bech32Decode(c); ok && len(bz) > 0 {
				return Tuple{StrConst(string(bz)), nil}
			}
			return Tuple{nil, e.newErr("bech32")}
		}
		ok := UF("bech32_ok", BoolS, s)
		bz := UF("bech32_dec", StrS, s)
		e.addAxiom(fmt.Sprintf("bech32:%d", s.id), AndN(
			Implies(ok, Not(Eq(s, StrConst("")))),
			Implies(ok, Eq(UF("bech32_enc", StrS, bz), s)),
			Implies(ok, Not(Eq(bz, StrConst("")))),
		))
		if e.branch(ok) {
			return Tuple{bz, nil}
		}
		return Tuple{nil, e.newErr("bech32")}
	})
	reg("github.com/cosmos/cosmos-sdk/types.MustAccAddressFromBech32", func(e *Engine, fn *ssa.Function, a []Value) Value {
		s := toSeq(a[0])
		if c, isC := goStr(s); isC {
			if bz, ok := bech32Decode(c); ok && len(bz) > 0 {
				return StrConst(string(bz))
			}
			e.goPanicf("MustAccAddressFromBech32: invalid address")
		}
		ok := UF("bech32_ok", BoolS, s)
		bz := UF("bech32_dec", StrS, s)
		e.addAxiom(fmt.Sprintf("bech32:%d", s.id), AndN(
			Implies(ok, Not(Eq(s, StrConst("")))),
			Implies(ok, Eq(UF("bech32_enc", StrS, bz), s)),
			Implies(ok, Not(Eq(bz, StrConst("")))),
		))
		if !e.branch(ok) {
			e.goPanicf("MustAccAddressFromBech32: invalid address")
		}
		return bz
	})
	accString := func(e *Engine, fn *ssa.Function, a []Value) Value {
		bz := toSeq(a[0])
		s := UF("bech32_enc", StrS, bz)
		e.addAxiom(fmt.Sprintf("bech32enc:%d", bz.id), Implies(Not(Eq(bz, StrConst(""))), And(Eq(UF("bech32_dec", StrS, s), bz), UF("bech32_ok", BoolS, s))))
		return Ite(Eq(bz, StrConst("")), StrConst(""), s)
	}
	reg("(github.com/cosmos/cosmos-sdk/types.AccAddress).String", accString)
	reg("(github.com/cosmos/cosmos-sdk/types.AccAddress).Bytes", func(e *Engine, fn *ssa.Function, a []Value) Value { return a[0] })
	reg("(github.com/cosmos/cosmos-sdk/types.AccAddress).Empty", func(e *Engine, fn *ssa.Function, a []Value) Value {
		return Eq(toSeq(a[0]), StrConst(""))
	})
	reg("(github.com/cosmos/cosmos-sdk/types.AccAddress).Equals", func(e *Engine, fn *ssa.Function, a []Value) Value {
		iv, _ := a[1].(*IfaceVal)
		if iv == nil {
			return Eq(toSeq(a[0]), StrConst(""))
		}
		return Eq(toSeq(a[0]), toSeq(iv.V))
	})
}
