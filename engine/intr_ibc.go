// Intrinsics for a few ibc-go / SDK helpers that are environment rather than protocol logic:
// reflection guards in constructors, telemetry, event emission, logging, bech32.
package main

import (
	"fmt"
	"regexp"
	"strings"

	"golang.org/x/tools/go/ssa"
)

const ibcgo = "github.com/cosmos/ibc-go/v11/"

// envNoop reports functions of ibc-go that only emit events / telemetry / logs.
func envNoop(name string, fn *ssa.Function) bool {
	if strings.HasPrefix(name, "github.com/cosmos/cosmos-sdk/telemetry.") || strings.HasPrefix(name, "github.com/hashicorp/go-metrics.") {
		return true
	}
	if !strings.HasPrefix(name, ibcgo) && !strings.HasPrefix(name, "(*"+ibcgo) && !strings.HasPrefix(name, "("+ibcgo) {
		return false
	}
	if strings.Contains(name, "/telemetry.") {
		return true
	}
	n := fn.Name()
	if (strings.HasPrefix(n, "emit") || strings.HasPrefix(n, "Emit")) && fn.Signature.Results().Len() == 0 {
		return true
	}
	if n == "Logger" && fn.Signature.Results().Len() == 1 {
		return true
	}
	return false
}

// values of package-level variables of third-party packages (their initialisers are not executed)
var thirdPartyGlobals = map[string]func(e *Engine) Value{}

func regexGlobal(pat string) func(e *Engine) Value {
	return func(e *Engine) Value {
		return &Closure{Intr: func(e *Engine, args []Value) Value {
			s := toSeq(args[0])
			if c, ok := goStr(s); ok {
				return BoolConst(regexp.MustCompile(pat).MatchString(c))
			}
			t, err := regexMatchTerm(pat, s)
			if err != nil {
				panic(inconclusive{"regex: " + err.Error()})
			}
			return t
		}}
	}
}

func init() {
	thirdPartyGlobals["github.com/cosmos/cosmos-sdk/types.IsAlphaNumeric"] = regexGlobal(`^[a-zA-Z0-9]+$`)
	thirdPartyGlobals["github.com/cosmos/cosmos-sdk/types.IsAlphaLower"] = regexGlobal(`^[a-z]+$`)
	thirdPartyGlobals["github.com/cosmos/cosmos-sdk/types.IsAlphaUpper"] = regexGlobal(`^[A-Z]+$`)
	thirdPartyGlobals["github.com/cosmos/cosmos-sdk/types.IsAlpha"] = regexGlobal(`^[a-zA-Z]+$`)
	thirdPartyGlobals["github.com/cosmos/cosmos-sdk/types.IsNumeric"] = regexGlobal(`^[0-9]+$`)
	// ParseChainID("chain-"+dec(rev)) with rev >= 1 is rev (the chain-id format NewCtx produces); anything else runs the real code
	reg(ibcgo+"modules/core/02-client/types.ParseChainID", func(e *Engine, fn *ssa.Function, a []Value) Value {
		if rev, ok := e.world.chainRev[toSeq(a[0])]; ok {
			return rev
		}
		return e.callBody(fn, a)
	})
	reg("github.com/cosmos/gogoproto/proto.EnumName", func(e *Engine, fn *ssa.Function, a []Value) Value { return StrConst("<enum>") })
	reg("github.com/cosmos/gogoproto/proto.CompactTextString", func(e *Engine, fn *ssa.Function, a []Value) Value { return StrConst("<proto>") })
	// JSON side of the proto codec: decoding relayer-supplied bytes is modelled as failing (the code paths that
	// only run after a successful JSON decode can only reject more); encoding is an uninterpreted function.
	reg("(*github.com/cosmos/cosmos-sdk/codec.ProtoCodec).UnmarshalJSON", func(e *Engine, fn *ssa.Function, a []Value) Value {
		e.note("ProtoCodec.UnmarshalJSON modelled as returning an error (JSON decoding of untrusted bytes is outside the claim)")
		return e.newErr("json")
	})
	reg("(*github.com/cosmos/cosmos-sdk/codec.ProtoCodec).MustMarshalJSON", func(e *Engine, fn *ssa.Function, a []Value) Value {
		iv, _ := a[1].(*IfaceVal)
		if iv == nil {
			return StrConst("null")
		}
		if p, ok := iv.V.(*PtrVal); ok && p != nil {
			return UF("json_enc", StrS, e.encode(load(p.L), p.L.T, shortType(p.L.T)))
		}
		panic(inconclusive{"MustMarshalJSON of non-pointer"})
	})
	reg("github.com/cosmos/cosmos-sdk/types.ValidateDenom", func(e *Engine, fn *ssa.Function, a []Value) Value {
		s := toSeq(a[0])
		var ok *T
		if c, isC := goStr(s); isC {
			ok = BoolConst(regexp.MustCompile(`^[a-zA-Z][a-zA-Z0-9/:._-]{2,127}$`).MatchString(c))
		} else {
			t, err := regexMatchTerm(`^[a-zA-Z][a-zA-Z0-9/:._-]{2,127}$`, s)
			if err != nil {
				panic(inconclusive{"regex: " + err.Error()})
			}
			ok = t
		}
		if e.branch(ok) {
			return nil
		}
		return e.newErr("invalid denom")
	})
	reg(ibcgo+"modules/core/keeper.isEmpty", func(e *Engine, fn *ssa.Function, a []Value) Value {
		return BoolConst(isNilVal(a[0]))
	})
	// bech32 account addresses: uninterpreted pair with inverse
	reg("github.com/cosmos/cosmos-sdk/types.AccAddressFromBech32", func(e *Engine, fn *ssa.Function, a []Value) Value {
		s := toSeq(a[0])
		if c, isC := goStr(s); isC {
			if bz, ok := bech32Decode(c); ok && len(bz) > 0 {
				return Tuple{StrConst(string(bz)), nil}
			}
			return Tuple{nil, e.newErr("bech32")}
		}
		ok := UF("bech32_ok", BoolS, s)
		bz := UF("bech32_dec", StrS, s)
		e.addAxiom(fmt.Sprintf("bech32:%d", s.id), AndN(
			Implies(ok, Not(Eq(s, StrConst("")))),
			Implies(ok, Eq(UF("bech32_enc", StrS, bz), s)),
			Implies(ok, Not(Eq(bz, StrConst("")))),
		))
		if e.branch(ok) {
			return Tuple{bz, nil}
		}
		return Tuple{nil, e.newErr("bech32")}
	})
	reg("github.com/cosmos/cosmos-sdk/types.MustAccAddressFromBech32", func(e *Engine, fn *ssa.Function, a []Value) Value {
		s := toSeq(a[0])
		if c, isC := goStr(s); isC {
			if bz, ok := bech32Decode(c); ok && len(bz) > 0 {
				return StrConst(string(bz))
			}
			e.goPanicf("MustAccAddressFromBech32: invalid address")
		}
		ok := UF("bech32_ok", BoolS, s)
		bz := UF("bech32_dec", StrS, s)
		e.addAxiom(fmt.Sprintf("bech32:%d", s.id), AndN(
			Implies(ok, Not(Eq(s, StrConst("")))),
			Implies(ok, Eq(UF("bech32_enc", StrS, bz), s)),
			Implies(ok, Not(Eq(bz, StrConst("")))),
		))
		if !e.branch(ok) {
			e.goPanicf("MustAccAddressFromBech32: invalid address")
		}
		return bz
	})
	accString := func(e *Engine, fn *ssa.Function, a []Value) Value {
		bz := toSeq(a[0])
		s := UF("bech32_enc", StrS, bz)
		e.addAxiom(fmt.Sprintf("bech32enc:%d", bz.id), Implies(Not(Eq(bz, StrConst(""))), And(Eq(UF("bech32_dec", StrS, s), bz), UF("bech32_ok", BoolS, s))))
		return Ite(Eq(bz, StrConst("")), StrConst(""), s)
	}
	reg("(github.com/cosmos/cosmos-sdk/types.AccAddress).String", accString)
	reg("(github.com/cosmos/cosmos-sdk/types.AccAddress).Bytes", func(e *Engine, fn *ssa.Function, a []Value) Value { return a[0] })
	reg("(github.com/cosmos/cosmos-sdk/types.AccAddress).Empty", func(e *Engine, fn *ssa.Function, a []Value) Value {
		return Eq(toSeq(a[0]), StrConst(""))
	})
	reg("(github.com/cosmos/cosmos-sdk/types.AccAddress).Equals", func(e *Engine, fn *ssa.Function, a []Value) Value {
		iv, _ := a[1].(*IfaceVal)
		if iv == nil {
			return Eq(toSeq(a[0]), StrConst(""))
		}
		return Eq(toSeq(a[0]), toSeq(iv.V))
	})
}
