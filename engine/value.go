// Values and memory: concrete pointers/objects, symbolic scalars.
package main

import (
	"fmt"
	"go/constant"
	"go/types"
	"strings"

	"golang.org/x/tools/go/ssa"
)

type Value interface{}

// StructVal is a struct or array value (by value).
type StructVal struct{ F []Value }

// Loc is an addressable cell.
type Loc struct {
	T      types.Type
	Val    Value
	Fields []*Loc
	Elems  []*Loc
	Extra  Value // engine side-table (big.Int value, registered error, ...)
	RO     bool  // read-only temporary
}
type PtrVal struct{ L *Loc }
type IfaceVal struct {
	T types.Type
	V Value
}
type SliceVal struct {
	Arr           *Loc
	Off, Len, Cap int
}
type Closure struct {
	Fn   *ssa.Function
	Bind []Value
	Intr func(e *Engine, args []Value) Value // engine-implemented closure
}
type Tuple []Value
type MapVal struct {
	Keys []Value
	Vals []Value
}

// engine objects for opaque third-party types
type RegexVal struct{ Pat string }
type ErrVal struct {
	ID     string // root identity for registered/new errors
	Parent Value  // wrapped error (IfaceVal) or nil
}
// TimeVal: unix seconds (signed BV64) and nanoseconds within the second (BV64 in [0, 1e9)).
type TimeVal struct{ Sec, Nsec *T }
type IntVal struct {         // sdkmath.Int / big.Int mathematical integer
	V   *T // Int sort
	Nil bool
}
type OpaqueVal struct { // value of a third-party type the engine does not look into
	T    types.Type
	Tag  string
	Data map[string]Value
}

type inconclusive struct{ msg string }
type pathEnd struct{}
type mergeAbort struct{ why string }
type goPanic struct {
	val Value
	msg string
}

func typeKey(t types.Type) string { return types.TypeString(t, nil) }

func sortOf(t types.Type) (Sort, bool) {
	switch u := t.Underlying().(type) {
	case *types.Basic:
		switch {
		case u.Info()&types.IsBoolean != 0:
			return BoolS, true
		case u.Info()&types.IsString != 0:
			return StrS, true
		case u.Info()&types.IsFloat != 0:
			return FPS, true
		case u.Info()&types.IsInteger != 0:
			switch u.Kind() {
			case types.Int8, types.Uint8:
				return BVS(8), true
			case types.Int16, types.Uint16:
				return BVS(16), true
			case types.Int32, types.Uint32:
				return BVS(32), true
			default:
				return BVS(64), true
			}
		}
	}
	return Sort{}, false
}

func isSigned(t types.Type) bool {
	if b, ok := t.Underlying().(*types.Basic); ok {
		return b.Info()&types.IsInteger != 0 && b.Info()&types.IsUnsigned == 0
	}
	return false
}

func isByteSlice(t types.Type) bool {
	s, ok := t.Underlying().(*types.Slice)
	if !ok {
		return false
	}
	b, ok := s.Elem().Underlying().(*types.Basic)
	return ok && b.Kind() == types.Uint8
}

func isStringType(t types.Type) bool {
	b, ok := t.Underlying().(*types.Basic)
	return ok && b.Info()&types.IsString != 0
}

// special opaque named types
func opaqueKind(t types.Type) string {
	switch typeKey(t) {
	case "time.Time":
		return "time"
	case "cosmossdk.io/math.Int":
		return "sdkint"
	case "github.com/cosmos/cosmos-sdk/types.Context":
		return "ctx"
	}
	return ""
}

func (e *Engine) zero(t types.Type) Value {
	switch opaqueKind(t) {
	case "time":
		return &TimeVal{Sec: BVConst(0, 64), Nsec: BVConst(0, 64)}
	case "sdkint":
		return &IntVal{V: IntConst(0), Nil: true}
	case "ctx":
		return (*CtxVal)(nil)
	}
	switch u := t.Underlying().(type) {
	case *types.Basic:
		s, ok := sortOf(t)
		if ok {
			switch s.K {
			case SBool:
				return tFalse
			case SStr:
				return StrConst("")
			case SFP:
				return fpConst(0)
			case SBV:
				return BVConst(0, s.W)
			}
		}
		if u.Kind() == types.UnsafePointer || u.Kind() == types.UntypedNil {
			return nil
		}
	case *types.Struct:
		sv := &StructVal{}
		for i := 0; i < u.NumFields(); i++ {
			sv.F = append(sv.F, e.zero(u.Field(i).Type()))
		}
		return sv
	case *types.Pointer, *types.Interface, *types.Slice, *types.Map, *types.Signature, *types.Chan:
		return nil
	case *types.Array:
		sv := &StructVal{}
		for i := int64(0); i < u.Len(); i++ {
			sv.F = append(sv.F, e.zero(u.Elem()))
		}
		return sv
	case *types.Tuple:
		var tv Tuple
		for i := 0; i < u.Len(); i++ {
			tv = append(tv, e.zero(u.At(i).Type()))
		}
		return tv
	}
	panic(inconclusive{"zero of " + t.String()})
}

func fpConst(f float64) *T {
	str := fmt.Sprintf("((_ to_fp 11 53) RNE %s)", fpLit(f))
	return intern("cfp|"+str, &T{Op: "const", Sort: FPS, Str: str})
}
func fpLit(f float64) string {
	s := fmt.Sprintf("%.20f", f)
	if strings.HasPrefix(s, "-") {
		return "(- " + s[1:] + ")"
	}
	return s
}

func (e *Engine) newLoc(t types.Type) *Loc {
	l := &Loc{T: t}
	if opaqueKind(t) != "" {
		l.Val = e.zero(t)
		return l
	}
	switch u := t.Underlying().(type) {
	case *types.Struct:
		l.Fields = make([]*Loc, u.NumFields())
		for i := 0; i < u.NumFields(); i++ {
			l.Fields[i] = e.newLoc(u.Field(i).Type())
		}
	case *types.Array:
		l.Elems = make([]*Loc, u.Len())
		for i := int64(0); i < u.Len(); i++ {
			l.Elems[i] = e.newLoc(u.Elem())
		}
	default:
		l.Val = e.zero(t)
	}
	return l
}

func load(l *Loc) Value {
	if l.Fields != nil {
		sv := &StructVal{F: make([]Value, len(l.Fields))}
		for i, f := range l.Fields {
			sv.F[i] = load(f)
		}
		return sv
	}
	if l.Elems != nil {
		sv := &StructVal{F: make([]Value, len(l.Elems))}
		for i, f := range l.Elems {
			sv.F[i] = load(f)
		}
		return sv
	}
	if l.Val == nil {
		if st, ok := l.T.Underlying().(*types.Struct); ok && st.NumFields() == 0 {
			return &StructVal{}
		}
		if at, ok := l.T.Underlying().(*types.Array); ok && at.Len() == 0 {
			return &StructVal{}
		}
	}
	return l.Val
}

func store(l *Loc, v Value) {
	if l.RO {
		panic(inconclusive{"store through read-only temporary (byte of a Seq-mode slice)"})
	}
	if l.Fields != nil {
		sv, ok := v.(*StructVal)
		if !ok {
			panic(inconclusive{fmt.Sprintf("store of %T into struct loc %s", v, l.T)})
		}
		for i, f := range l.Fields {
			store(f, sv.F[i])
		}
		return
	}
	if l.Elems != nil {
		sv, ok := v.(*StructVal)
		if !ok {
			panic(inconclusive{fmt.Sprintf("store of %T into array loc %s", v, l.T)})
		}
		for i, f := range l.Elems {
			store(f, sv.F[i])
		}
		return
	}
	l.Val = v
}

func (e *Engine) constVal(c *ssa.Const) Value {
	if c.Value == nil {
		return e.zero(c.Type())
	}
	s, ok := sortOf(c.Type())
	if !ok {
		panic(inconclusive{"const " + c.String()})
	}
	switch s.K {
	case SBool:
		return BoolConst(constant.BoolVal(c.Value))
	case SStr:
		return StrConst(constant.StringVal(c.Value))
	case SBV:
		iv := constant.ToInt(c.Value)
		if i, ok := constant.Int64Val(iv); ok {
			return BVConst(uint64(i), s.W)
		}
		u, _ := constant.Uint64Val(iv)
		return BVConst(u, s.W)
	case SFP:
		f, _ := constant.Float64Val(c.Value)
		return fpConst(f)
	}
	panic(inconclusive{"const " + c.String()})
}

func isNilVal(v Value) bool {
	switch x := v.(type) {
	case nil:
		return true
	case *IfaceVal:
		return x == nil
	case *PtrVal:
		return x == nil
	case *SliceVal:
		return x == nil
	case *MapVal:
		return x == nil
	case *Closure:
		return x == nil
	case *CtxVal:
		return x == nil
	}
	return false
}

func constU64(v Value) (uint64, bool) {
	t, ok := v.(*T)
	if !ok || !t.IsConst() || t.Sort.K != SBV {
		return 0, false
	}
	return t.BV, true
}

func constInt(v Value, what string) int {
	t, ok := v.(*T)
	if !ok {
		panic(inconclusive{"non-term where constant int needed: " + what})
	}
	if t.IsConst() && t.Sort.K == SBV {
		return int(t.SignedBV())
	}
	panic(inconclusive{"symbolic int where constant needed (" + what + "): " + t.String()})
}

func goStr(v Value) (string, bool) {
	t, ok := v.(*T)
	if !ok || !t.IsConst() || t.Sort.K != SStr {
		return "", false
	}
	return t.Str, true
}

func constStr(v Value, what string) string {
	s, ok := goStr(v)
	if !ok {
		panic(inconclusive{"constant string expected for " + what})
	}
	return s
}

// sliceElems returns the element Locs of a slice value.
func sliceElems(v Value) []*Loc {
	s, _ := v.(*SliceVal)
	if s == nil {
		return nil
	}
	return s.Arr.Elems[s.Off : s.Off+s.Len]
}

func (e *Engine) mkSlice(elemT types.Type, vals []Value) *SliceVal {
	arr := e.newLoc(types.NewArray(elemT, int64(len(vals))))
	for i, v := range vals {
		store(arr.Elems[i], v)
	}
	return &SliceVal{Arr: arr, Len: len(vals), Cap: len(vals)}
}

// toSeq converts a []byte / string value to a String term.
func toSeq(v Value) *T {
	switch x := v.(type) {
	case nil:
		return StrConst("")
	case *T:
		if x.Sort.K != SStr {
			panic(inconclusive{"toSeq of non-string term " + x.String()})
		}
		return x
	case *SliceVal:
		if x == nil {
			return StrConst("")
		}
		parts := make([]*T, 0, x.Len)
		for i := 0; i < x.Len; i++ {
			b, ok := load(x.Arr.Elems[x.Off+i]).(*T)
			if !ok {
				panic(inconclusive{"toSeq: non-byte element"})
			}
			parts = append(parts, CodeStr(b))
		}
		return Concat(parts...)
	case *StructVal: // array value
		parts := make([]*T, 0, len(x.F))
		for _, f := range x.F {
			parts = append(parts, CodeStr(f.(*T)))
		}
		return Concat(parts...)
	}
	panic(inconclusive{fmt.Sprintf("toSeq %T", v)})
}

// seqLenConst returns the concrete length of a string term if known.
func seqLenConst(t *T) (int, bool) {
	n := StrLen(t)
	if n.IsConst() {
		return int(n.Int.Int64()), true
	}
	return 0, false
}

// seqToVec turns a String term with known length into a Vec-mode slice of bytes.
func (e *Engine) seqToVec(t *T, n int) *SliceVal {
	vals := make([]Value, n)
	for i := 0; i < n; i++ {
		vals[i] = StrCodeBV8(StrAt(t, IntConst(int64(i))))
	}
	return e.mkSlice(types.Typ[types.Uint8], vals)
}
