// Intrinsics: cosmossdk.io/math.Int as a mathematical integer (SMT Int). The 256-bit range checks of the real type
// (panics on overflow) are not modelled: harnesses keep amounts inside the range (stated per harness).
package main

import (
	"fmt"
	"go/types"
	"math/big"

	"golang.org/x/tools/go/ssa"
)

func intOfVal(v Value) *IntVal {
	switch x := v.(type) {
	case *IntVal:
		return x
	case *PtrVal:
		if iv, ok := load(x.L).(*IntVal); ok {
			return iv
		}
	}
	panic(inconclusive{fmt.Sprintf("math.Int value expected, got %T", v)})
}

func mkInt(t *T) *IntVal { return &IntVal{V: t} }

// truncated division (Go / big.Int.Quo semantics) from SMT's floor-style div
func intQuo(a, b *T) *T {
	if a.IsConst() && b.IsConst() && b.Int.Sign() != 0 {
		return IntConstBig(new(big.Int).Quo(a.Int, b.Int))
	}
	q := mk("div", IntS, mk("abs", IntS, a), mk("abs", IntS, b))
	neg := Not(Eq(IntCmp("<", a, IntConst(0)), IntCmp("<", b, IntConst(0))))
	return Ite(neg, IntNeg(q), q)
}

func init() {
	const m = "cosmossdk.io/math."
	reg(m+"NewInt", func(e *Engine, fn *ssa.Function, a []Value) Value { return mkInt(bvToIntSigned(a[0].(*T))) })
	reg(m+"NewIntFromUint64", func(e *Engine, fn *ssa.Function, a []Value) Value { return mkInt(BV2Int(a[0].(*T))) })
	reg(m+"ZeroInt", func(e *Engine, fn *ssa.Function, a []Value) Value { return mkInt(IntConst(0)) })
	reg(m+"OneInt", func(e *Engine, fn *ssa.Function, a []Value) Value { return mkInt(IntConst(1)) })
	fromBig := func(e *Engine, fn *ssa.Function, a []Value) Value {
		p, _ := a[0].(*PtrVal)
		if p == nil {
			return &IntVal{V: IntConst(0), Nil: true}
		}
		t, _ := p.L.Extra.(*T)
		if t == nil {
			return mkInt(IntConst(0))
		}
		if t.Sort.K == SBV {
			return mkInt(BV2Int(t))
		}
		return mkInt(t)
	}
	reg(m+"NewIntFromBigInt", fromBig)
	reg(m+"NewIntFromBigIntMut", fromBig)
	reg(m+"NewIntFromString", func(e *Engine, fn *ssa.Function, a []Value) Value {
		s := toSeq(a[0])
		if c, ok := goStr(s); ok {
			if v, ok := new(big.Int).SetString(c, 0); ok && v.BitLen() <= 256 {
				return Tuple{mkInt(IntConstBig(v)), tTrue}
			}
			return Tuple{&IntVal{V: IntConst(0), Nil: true}, tFalse}
		}
		if s.Op == "uf" && s.Name == "int2str" {
			return Tuple{mkInt(s.Args[0]), tTrue}
		}
		ok := UF("str2int_ok", BoolS, s)
		v := UF("str2int", IntS, s)
		e.addAxiom(fmt.Sprintf("str2int:%d", s.id), Implies(ok, Not(Eq(s, StrConst("")))))
		return Tuple{mkInt(v), ok}
	})
	un := func(f func(x *T) Value) intrinsic {
		return func(e *Engine, fn *ssa.Function, a []Value) Value { return f(intOfVal(a[0]).V) }
	}
	bin := func(f func(x, y *T) Value) intrinsic {
		return func(e *Engine, fn *ssa.Function, a []Value) Value { return f(intOfVal(a[0]).V, intOfVal(a[1]).V) }
	}
	raw := func(f func(x, y *T) Value) intrinsic {
		return func(e *Engine, fn *ssa.Function, a []Value) Value { return f(intOfVal(a[0]).V, bvToIntSigned(a[1].(*T))) }
	}
	I := "(" + m + "Int)."
	reg(I+"IsNil", func(e *Engine, fn *ssa.Function, a []Value) Value { return BoolConst(intOfVal(a[0]).Nil) })
	reg(I+"IsZero", un(func(x *T) Value { return Eq(x, IntConst(0)) }))
	reg(I+"IsNegative", un(func(x *T) Value { return IntCmp("<", x, IntConst(0)) }))
	reg(I+"IsPositive", un(func(x *T) Value { return IntCmp(">", x, IntConst(0)) }))
	reg(I+"Sign", un(func(x *T) Value {
		return Ite(IntCmp("<", x, IntConst(0)), BVConst(^uint64(0), 64), Ite(IntCmp(">", x, IntConst(0)), BVConst(1, 64), BVConst(0, 64)))
	}))
	reg(I+"Equal", bin(func(x, y *T) Value { return Eq(x, y) }))
	reg(I+"GT", bin(func(x, y *T) Value { return IntCmp(">", x, y) }))
	reg(I+"GTE", bin(func(x, y *T) Value { return IntCmp(">=", x, y) }))
	reg(I+"LT", bin(func(x, y *T) Value { return IntCmp("<", x, y) }))
	reg(I+"LTE", bin(func(x, y *T) Value { return IntCmp("<=", x, y) }))
	reg(I+"Add", bin(func(x, y *T) Value { return mkInt(IntAdd(x, y)) }))
	reg(I+"Sub", bin(func(x, y *T) Value { return mkInt(IntSub(x, y)) }))
	reg(I+"Mul", bin(func(x, y *T) Value { return mkInt(IntMul(x, y)) }))
	reg(I+"AddRaw", raw(func(x, y *T) Value { return mkInt(IntAdd(x, y)) }))
	reg(I+"SubRaw", raw(func(x, y *T) Value { return mkInt(IntSub(x, y)) }))
	reg(I+"MulRaw", raw(func(x, y *T) Value { return mkInt(IntMul(x, y)) }))
	quo := func(e *Engine, x, y *T) Value {
		if !(y.IsConst() && y.Int.Sign() != 0) {
			if e.branch(Eq(y, IntConst(0))) {
				e.goPanicf("math.Int division by zero")
			}
		}
		return mkInt(intQuo(x, y))
	}
	reg(I+"Quo", func(e *Engine, fn *ssa.Function, a []Value) Value { return quo(e, intOfVal(a[0]).V, intOfVal(a[1]).V) })
	reg(I+"QuoRaw", func(e *Engine, fn *ssa.Function, a []Value) Value {
		return quo(e, intOfVal(a[0]).V, bvToIntSigned(a[1].(*T)))
	})
	reg(I+"Neg", un(func(x *T) Value { return mkInt(IntNeg(x)) }))
	reg(I+"Abs", un(func(x *T) Value { return mkInt(Ite(IntCmp("<", x, IntConst(0)), IntNeg(x), x)) }))
	reg(I+"String", func(e *Engine, fn *ssa.Function, a []Value) Value {
		x := intOfVal(a[0]).V
		if x.IsConst() {
			return StrConst(x.Int.String())
		}
		s := UF("int2str", StrS, x)
		e.addAxiom(fmt.Sprintf("int2str:%d", x.id), AndN(Eq(UF("str2int", IntS, s), x), UF("str2int_ok", BoolS, s), Not(Eq(s, StrConst("")))))
		return s
	})
	two64 := IntConstBig(new(big.Int).Lsh(big.NewInt(1), 64))
	two63 := IntConstBig(new(big.Int).Lsh(big.NewInt(1), 63))
	reg(I+"IsUint64", un(func(x *T) Value { return And(IntCmp(">=", x, IntConst(0)), IntCmp("<", x, two64)) }))
	reg(I+"IsInt64", un(func(x *T) Value { return And(IntCmp(">=", x, IntNeg(two63)), IntCmp("<", x, two63)) }))
	reg(I+"Uint64", func(e *Engine, fn *ssa.Function, a []Value) Value {
		x := intOfVal(a[0]).V
		if !e.branch(And(IntCmp(">=", x, IntConst(0)), IntCmp("<", x, two64))) {
			e.goPanicf("Uint64() out of bounds")
		}
		return Int2BVraw(x, 64)
	})
	reg(I+"Int64", func(e *Engine, fn *ssa.Function, a []Value) Value {
		x := intOfVal(a[0]).V
		if !e.branch(And(IntCmp(">=", x, IntNeg(two63)), IntCmp("<", x, two63))) {
			e.goPanicf("Int64() out of bounds")
		}
		return Int2BVraw(x, 64)
	})
	reg(I+"BigInt", func(e *Engine, fn *ssa.Function, a []Value) Value {
		iv := intOfVal(a[0])
		if iv.Nil {
			return (*PtrVal)(nil)
		}
		l := e.newLoc(fn.Signature.Results().At(0).Type().(*types.Pointer).Elem())
		l.Extra = iv.V
		return &PtrVal{l}
	})
	reg(m+"MaxInt", func(e *Engine, fn *ssa.Function, a []Value) Value {
		x, y := intOfVal(a[0]).V, intOfVal(a[1]).V
		return mkInt(Ite(IntCmp(">", x, y), x, y))
	})
	reg(m+"MinInt", func(e *Engine, fn *ssa.Function, a []Value) Value {
		x, y := intOfVal(a[0]).V, intOfVal(a[1]).V
		return mkInt(Ite(IntCmp("<", x, y), x, y))
	})
	// math/big helpers needed by package-level constants (2^256-1)
	reg("(*math/big.Int).Lsh", func(e *Engine, fn *ssa.Function, a []Value) Value {
		p := a[0].(*PtrVal)
		src := a[1].(*PtrVal)
		k := constInt(a[2], "Lsh count")
		x, _ := src.L.Extra.(*T)
		if x == nil {
			x = IntConst(0)
		}
		if x.Sort.K == SBV {
			x = BV2Int(x)
		}
		p.L.Extra = IntMul(x, IntConstBig(new(big.Int).Lsh(big.NewInt(1), uint(k))))
		return p
	})
	// harness inputs
	reg(vp+"SdkInt", func(e *Engine, fn *ssa.Function, a []Value) Value {
		return mkInt(e.Fresh(constStr(a[0], "name"), IntS))
	})
}
