// Intrinsics: SDK prefix store (key concatenation over the parent store).
package main

import (
	"fmt"
	"go/types"

	"golang.org/x/tools/go/ssa"
)

// invokeByName calls method name on an interface value with a Go dynamic type.
func (e *Engine) invokeByName(recv Value, name string, args ...Value) Value {
	iv, _ := recv.(*IfaceVal)
	if iv == nil {
		e.goPanicf("nil interface in engine-side invoke of %s", name)
	}
	if ov, ok := iv.V.(*OpaqueVal); ok {
		if h := opaqueMethods[ov.Tag+"."+name]; h != nil {
			return h(e, nil, append([]Value{ov}, args...))
		}
		panic(inconclusive{"method " + name + " on opaque " + ov.Tag})
	}
	ms := e.sh.prog.MethodSets.MethodSet(iv.T)
	for i := 0; i < ms.Len(); i++ {
		if ms.At(i).Obj().Name() == name {
			m := e.sh.prog.MethodValue(ms.At(i))
			if m == nil {
				break
			}
			return e.call(m, append([]Value{iv.V}, args...))
		}
	}
	panic(inconclusive{fmt.Sprintf("no method %s on %s", name, iv.T)})
}

func init() {
	const pfx = "github.com/cosmos/cosmos-sdk/store/v2/prefix."
	newStore := func(e *Engine, fn *ssa.Function, a []Value) Value {
		var rt types.Type
		if fn != nil {
			rt = fn.Signature.Results().At(0).Type()
		}
		return &OpaqueVal{T: rt, Tag: "prefixstore", Data: map[string]Value{"parent": a[0], "prefix": toSeq(a[1])}}
	}
	reg(pfx+"NewStore", newStore)
	key := func(ov *OpaqueVal, k Value) *T { return Concat(ov.Data["prefix"].(*T), toSeq(k)) }
	self := func(a []Value) *OpaqueVal {
		switch x := a[0].(type) {
		case *OpaqueVal:
			return x
		case *IfaceVal:
			if ov, ok := x.V.(*OpaqueVal); ok {
				return ov
			}
		}
		panic(inconclusive{"prefix store receiver"})
	}
	opaqueMethods["prefixstore.Get"] = func(e *Engine, fn *ssa.Function, a []Value) Value {
		ov := self(a)
		return e.invokeByName(ov.Data["parent"], "Get", key(ov, a[1]))
	}
	opaqueMethods["prefixstore.Has"] = func(e *Engine, fn *ssa.Function, a []Value) Value {
		ov := self(a)
		return e.invokeByName(ov.Data["parent"], "Has", key(ov, a[1]))
	}
	opaqueMethods["prefixstore.Set"] = func(e *Engine, fn *ssa.Function, a []Value) Value {
		ov := self(a)
		return e.invokeByName(ov.Data["parent"], "Set", key(ov, a[1]), a[2])
	}
	opaqueMethods["prefixstore.Delete"] = func(e *Engine, fn *ssa.Function, a []Value) Value {
		ov := self(a)
		return e.invokeByName(ov.Data["parent"], "Delete", key(ov, a[1]))
	}
	for _, m := range []string{"Get", "Has", "Set", "Delete"} {
		h := opaqueMethods["prefixstore."+m]
		reg("("+pfx+"GStore)."+m, h)
		reg("("+pfx+"Store)."+m, h)
	}
}
