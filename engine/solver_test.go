package main

import (
	"testing"
	"time"
)

func TestTimeoutKill(t *testing.T) {
	pf := NewPortfolio([]string{"cvc5", "z3-5.1"})
	defer pf.Close()
	hard := "(declare-const x (_ BitVec 64))(declare-const y (_ BitVec 64))(assert (= (bvmul x y) #x7fffffffffffffe7))(assert (bvugt x #x0000000000000001))(assert (bvugt y #x0000000000000001))(assert (bvult x #x00000000ffffffff))(assert (bvult y #x00000000ffffffff))\n"
	t0 := time.Now()
	r := pf.Check(hard, "", 1000)
	t.Logf("result %s by %s in %v", r.Res, r.Solver, time.Since(t0))
	if time.Since(t0) > 8*time.Second {
		t.Fatalf("did not time out")
	}
	// a second query must still work
	r = pf.Check("(declare-const b Bool)(assert b)\n", "", 1000)
	if r.Res != "sat" {
		t.Fatalf("second query: %s", r.Res)
	}
}
