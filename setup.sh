#!/bin/sh
# Offline setup: build the engine, warm the Go build cache for the harness module (export data of ~1500 deps).
set -e
cd "$(dirname "$0")"
mkdir -p gobin bin out replay evidence
ln -sf "$(command -v go1.26.8 || echo /usr/local/bin/go1.26.8)" gobin/go
export PATH="$PWD/gobin:$PATH" GOFLAGS=-mod=mod GOPROXY=off GOTOOLCHAIN=local
unset GOSUMDB
(cd engine && go build -o ../bin/gosmt .)
cp /repo/go.sum harness/go.sum
(cd harness && go build ./... && go list -export -deps ./... >/dev/null && go test -vet=off -count=1 -ldflags=-checklinkname=0 -run '^$' ./... >/dev/null 2>&1 || true)
echo setup done
