// Package c36: transfer authorizations never exceed their grant.
package c36

import (
	sdkmath "cosmossdk.io/math"

	sdk "github.com/cosmos/cosmos-sdk/types"

	transfertypes "github.com/cosmos/ibc-go/v11/modules/apps/transfer/types"

	"verifharness/verif"
)

func tag(s string, i int) string { return s + string(rune('0'+i)) }

// symAllocations: 1..2 allocations, each with 1..2 spend-limit coins (distinct denominations, positive amounts; an
// amount may be the unbounded sentinel), an allow list of 0..2 receivers and no memo restriction list.
func symAllocations() []transfertypes.Allocation {
	n := verif.Len("allocations", 1, 2)
	var out []transfertypes.Allocation
	for i := 0; i < n; i++ {
		t := tag("alloc", i)
		al := transfertypes.Allocation{SourcePort: verif.String(t + ".port"), SourceChannel: verif.String(t + ".channel")}
		m := verif.Len(t+".coins", 1, 2)
		for j := 0; j < m; j++ {
			amt := verif.SdkInt(tag(t+".amount", j))
			verif.Assume(amt.IsPositive() && amt.LTE(transfertypes.UnboundedSpendLimit()))
			al.SpendLimit = append(al.SpendLimit, sdk.Coin{Denom: verif.String(tag(t+".denom", j)), Amount: amt})
		}
		if m == 2 {
			verif.Assume(al.SpendLimit[0].Denom != al.SpendLimit[1].Denom)
		}
		k := verif.Len(t+".allow", 0, 2)
		for j := 0; j < k; j++ {
			al.AllowList = append(al.AllowList, verif.String(tag(t+".allowed", j)))
		}
		out = append(out, al)
	}
	if n == 2 {
		// ValidateBasic rejects duplicate source channels
		verif.Assume(out[0].SourceChannel != out[1].SourceChannel)
	}
	return out
}

func amountOf(coins sdk.Coins, denom string) sdkmath.Int {
	r := sdkmath.ZeroInt()
	for _, c := range coins {
		if c.Denom == denom {
			r = c.Amount
		}
	}
	return r
}

// HarnessAcceptWithinGrant: one Accept step from an arbitrary authorization. Acceptance implies: an allocation for the
// message's (port, channel) exists, the receiver is allowed, the amount is within that allocation's remaining limit for
// the denomination (unless that denomination's limit is the unbounded sentinel), and the updated authorization has
// exactly that limit reduced by the amount, every other limit unchanged.
func HarnessAcceptWithinGrant() {
	verif.NoPanic()
	ctx := verif.NewCtx()
	allocs := symAllocations()
	// remember the pre-state (Accept mutates the authorization in place)
	type pre struct {
		port, channel string
		denoms        []string
		amounts       []sdkmath.Int
		allow         []string
	}
	var before []pre
	for _, a := range allocs {
		p := pre{port: a.SourcePort, channel: a.SourceChannel, allow: a.AllowList}
		for _, c := range a.SpendLimit {
			p.denoms = append(p.denoms, c.Denom)
			p.amounts = append(p.amounts, c.Amount)
		}
		before = append(before, p)
	}
	auth := transfertypes.NewTransferAuthorization(allocs...)
	amt := verif.SdkInt("msg.amount")
	verif.Assume(amt.IsPositive() && amt.LTE(transfertypes.UnboundedSpendLimit()))
	msg := &transfertypes.MsgTransfer{SourcePort: verif.String("msg.port"), SourceChannel: verif.String("msg.channel"),
		Token: sdk.Coin{Denom: verif.String("msg.denom"), Amount: amt}, Sender: verif.String("msg.sender"), Receiver: verif.String("msg.receiver"), Memo: ""}
	resp, err := auth.Accept(ctx, msg)
	verif.Reach("returned")
	if err != nil {
		return
	}
	verif.Reach("accepted")
	verif.Assert(resp.Accept, "no error means accepted")
	// the matching allocation is the first one with the message's port and channel
	idx := -1
	for i, p := range before {
		if idx < 0 && p.port == msg.SourcePort && p.channel == msg.SourceChannel {
			idx = i
		}
	}
	verif.Assert(idx >= 0, "an allocation for the message's port and channel exists")
	if idx < 0 {
		return
	}
	p := before[idx]
	allowed := len(p.allow) == 0
	for _, r := range p.allow {
		if r == msg.Receiver {
			allowed = true
		}
	}
	verif.Assert(allowed, "the receiver is on the allocation's allow list (or the list is empty)")
	lim := sdkmath.ZeroInt()
	for j, d := range p.denoms {
		if d == msg.Token.Denom {
			lim = p.amounts[j]
		}
	}
	unbounded := lim.Equal(transfertypes.UnboundedSpendLimit())
	if !unbounded {
		verif.Reach("bounded denomination")
		verif.Assert(amt.LTE(lim), "a bounded transfer never exceeds the remaining limit of its denomination")
	}
	// remaining limits after the step
	var after sdk.Coins
	removed := false
	if resp.Updated != nil {
		upd := resp.Updated.(*transfertypes.TransferAuthorization)
		found := false
		for _, a := range upd.Allocations {
			if a.SourcePort == p.port && a.SourceChannel == p.channel {
				after = a.SpendLimit
				found = true
			}
		}
		removed = !found
	} else if resp.Delete {
		removed = true
	} else {
		// not modified: limits as before
		for j, d := range p.denoms {
			after = append(after, sdk.Coin{Denom: d, Amount: p.amounts[j]})
		}
	}
	if !removed {
		for j, d := range p.denoms {
			want := p.amounts[j]
			if d == msg.Token.Denom && !unbounded {
				want = want.Sub(amt)
			}
			verif.Assert(amountOf(after, d).Equal(want), "the remaining limit is the old limit minus the transferred amount; other denominations are unchanged")
		}
	} else if !unbounded {
		// the allocation disappears only when nothing is left in it
		for j, d := range p.denoms {
			want := p.amounts[j]
			if d == msg.Token.Denom {
				want = want.Sub(amt)
			}
			verif.Assert(want.IsZero(), "an allocation is removed only when every limit in it is exhausted")
		}
	}
	if resp.Delete {
		verif.Assert(len(before) == 1, "the grant is deleted only when its last allocation is exhausted")
	}
}
