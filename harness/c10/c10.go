// Package c10: IBC v2 multi-payload receives are all-or-nothing.
package c10

import (
	"bytes"

	v2 "github.com/cosmos/ibc-go/v11/modules/core/04-channel/v2/types"

	"verifharness/corekit"
	"verifharness/verif"
)

const (
	stSuccess = 0
	stFailure = 1
	stAsync   = 2
)

// HarnessMultiPayloadAtomic: n in 1..3 payloads, each application callback arbitrarily succeeds, fails or is async and
// may write one key to application state through the context it was given.
func HarnessMultiPayloadAtomic() {
	verif.NoPanic()
	maxPayloads := 2
	if verif.Thorough() {
		maxPayloads = 3
	}
	s := corekit.RecvSideV2(1, maxPayloads)
	w, p := s.W, s.P
	w.AppV2.Writes = 1
	snapIBC := verif.StSnapshot(w.Ctx, "ibc")
	snapApp := verif.StSnapshot(w.Ctx, "app")
	ackBefore := w.IBC.ChannelKeeperV2.GetPacketAcknowledgement(w.Ctx, p.DestinationClient, p.Sequence)
	res, err := w.IBC.ChannelKeeperV2.RecvPacket(w.Ctx, s.RecvMsg())
	verif.Reach("returned")
	calls := verif.CallCount("V2.OnRecvPacket")
	n := len(p.Payloads)
	anyFail, anyAsync, allSuccess := false, false, calls == n
	var acks [][]byte
	for i := 0; i < calls; i++ {
		st := verif.CallArgUint64("V2.OnRecvPacket", i, 4)
		if st == stFailure {
			anyFail = true
		}
		if st == stAsync {
			anyAsync = true
		}
		if st != stSuccess {
			allSuccess = false
		}
		acks = append(acks, verif.CallArgBytes("V2.OnRecvPacket", i, 5))
	}
	storedAck := w.IBC.ChannelKeeperV2.GetPacketAcknowledgement(w.Ctx, p.DestinationClient, p.Sequence)
	_, asyncStored := w.IBC.ChannelKeeperV2.GetAsyncPacket(w.Ctx, p.DestinationClient, p.Sequence)
	writes := verif.CallCount("appv2.recv.write")
	if calls > 0 && anyAsync && n > 1 {
		verif.Reach("async in multi-payload packet")
		verif.Assert(err != nil, "an asynchronous result is rejected for multi-payload packets")
	}
	if err != nil {
		// the transaction fails: the SDK discards every write of the message
		return
	}
	if res.Result != v2.SUCCESS {
		return
	}
	verif.Reach("processed")
	if anyFail {
		verif.Reach("some payload failed")
		verif.Assert(verif.StEqual(w.Ctx, "app", snapApp), "a failing payload discards the application writes of every payload")
		verif.Assert(bytes.Equal(storedAck, v2.CommitAcknowledgement(v2.Acknowledgement{AppAcknowledgements: [][]byte{v2.ErrorAcknowledgement[:]}})), "failure stores exactly the single universal error acknowledgement")
	}
	if allSuccess {
		verif.Reach("all payloads succeeded")
		verif.Assert(bytes.Equal(storedAck, v2.CommitAcknowledgement(v2.Acknowledgement{AppAcknowledgements: acks})), "success stores the commitment of every payload's acknowledgement in order")
		for _, a := range acks {
			verif.Assert(!bytes.Equal(a, v2.ErrorAcknowledgement[:]), "a success acknowledgement never contains the error sentinel")
		}
		if writes > 0 {
			k, v := verif.CallArgBytes("appv2.recv.write", writes-1, 0), verif.CallArgBytes("appv2.recv.write", writes-1, 1)
			verif.Assert(bytes.Equal(verif.StGet(w.Ctx, "app", k), v), "application writes persist when every payload succeeds")
		}
	}
	if anyAsync && !anyFail {
		verif.Reach("async single payload")
		verif.Assert(n == 1, "an asynchronous acknowledgement is possible only for single-payload packets")
		verif.Assert(asyncStored && bytes.Equal(storedAck, ackBefore), "async: the packet is recorded for a later acknowledgement and no acknowledgement is written yet")
	}
	_ = snapIBC
}
