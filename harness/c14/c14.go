// Package c14: ordered-channel timeouts close the channel for further packet flow.
package c14

import (
	chantypes "github.com/cosmos/ibc-go/v11/modules/core/04-channel/types"

	"verifharness/corekit"
	"verifharness/models"
	"verifharness/verif"
)

// HarnessOrderedTimeoutCloses: a successful timeout on an ORDERED channel leaves the sender's channel end CLOSED
// (all other fields unchanged); on an UNORDERED channel the end is untouched.
func HarnessOrderedTimeoutCloses() {
	s := corekit.SendSide()
	w, p := s.W, s.P
	res, err := w.IBC.Timeout(w.Ctx, s.TimeoutMsg())
	verif.Reach("returned")
	after, found := w.IBC.ChannelKeeper.GetChannel(w.Ctx, p.SourcePort, p.SourceChannel)
	verif.Assert(found, "the channel end still exists")
	if err == nil && res.Result == chantypes.SUCCESS {
		verif.Reach("timed out")
		if s.Ch.Ordering == chantypes.ORDERED {
			verif.Reach("ordered")
			verif.Assert(after.State == chantypes.CLOSED, "a timeout on an ORDERED channel closes the sender's channel end")
		} else {
			verif.Assert(after.State == s.Ch.State, "a timeout on an UNORDERED channel leaves the state unchanged")
		}
		verif.Assert(after.Ordering == s.Ch.Ordering && after.Version == s.Ch.Version && after.Counterparty == s.Ch.Counterparty &&
			len(after.ConnectionHops) == 1 && after.ConnectionHops[0] == s.ConnID, "the other fields of the channel end are unchanged")
	} else if verif.CallCount("OnTimeoutPacket") == 0 {
		verif.Assert(after.State == s.Ch.State, "without a processed timeout the channel state is unchanged")
	}
}

// HarnessClosedRejectsPacketFlow: on a CLOSED channel end send, receive, acknowledge and write-acknowledgement all fail
// without any state change, from any store.
func HarnessClosedRejectsPacketFlow() {
	op := verif.Choice("op", 4)
	var s corekit.V1
	if op == 1 || op == 3 {
		s = corekit.RecvSide()
	} else {
		s = corekit.SendSide()
	}
	verif.Assume(s.Ch.State == chantypes.CLOSED)
	w, p := s.W, s.P
	snap := verif.StSnapshot(w.Ctx, "ibc")
	var err error
	switch op {
	case 0:
		_, err = w.IBC.ChannelKeeper.SendPacket(w.Ctx, p.SourcePort, p.SourceChannel, p.TimeoutHeight, p.TimeoutTimestamp, p.Data)
	case 1:
		_, err = w.IBC.RecvPacket(w.Ctx, s.RecvMsg())
	case 2:
		_, err = w.IBC.Acknowledgement(w.Ctx, s.AckMsg())
	case 3:
		err = w.IBC.ChannelKeeper.WriteAcknowledgement(w.Ctx, p, models.SymAck{Ok: verif.Bool("ackOk"), Bz: verif.Bytes("ackBz")})
	}
	verif.Reach("returned")
	verif.Assert(err != nil, "a CLOSED channel rejects send / receive / acknowledge / write-acknowledgement")
	verif.Assert(verif.StEqual(w.Ctx, "ibc", snap), "and nothing is written")
	verif.Assert(verif.CallCount("OnRecvPacket")+verif.CallCount("OnAcknowledgementPacket") == 0, "and no application callback runs")
}

// HarnessClosedStillTimesOut: TimeoutPacket does not require the sender's end to be OPEN (in-flight packets of a
// closed ordered channel can still be timed out): the OPEN check is absent, so state CLOSED is accepted like any other.
func HarnessClosedStillTimesOut() {
	s := corekit.SendSide()
	verif.Assume(s.Ch.State == chantypes.CLOSED)
	res, err := s.W.IBC.Timeout(s.W.Ctx, s.TimeoutMsg())
	if err == nil && res.Result == chantypes.SUCCESS {
		verif.Reach("timeout processed on a CLOSED channel")
	}
	verif.Reach("returned")
}
