// Package c07: packet and acknowledgement commitments bind every committed field.
package c07

import (
	"bytes"

	sdk "github.com/cosmos/cosmos-sdk/types"

	clienttypes "github.com/cosmos/ibc-go/v11/modules/core/02-client/types"
	chantypes "github.com/cosmos/ibc-go/v11/modules/core/04-channel/types"
	v2 "github.com/cosmos/ibc-go/v11/modules/core/04-channel/v2/types"

	"verifharness/verif"
)

func sha(b []byte) []byte { return verif.Sha256(b) }

func cat(parts ...[]byte) []byte {
	var out []byte
	for _, p := range parts {
		out = append(out, p...)
	}
	return out
}

func v1Packet(n string) chantypes.Packet {
	return chantypes.Packet{
		Sequence: verif.Uint64(n + ".seq"), SourcePort: verif.String(n + ".sp"), SourceChannel: verif.String(n + ".sc"),
		DestinationPort: verif.String(n + ".dp"), DestinationChannel: verif.String(n + ".dc"),
		Data:             verif.Bytes(n + ".data"),
		TimeoutHeight:    clienttypes.NewHeight(verif.Uint64(n+".rev"), verif.Uint64(n+".h")),
		TimeoutTimestamp: verif.Uint64(n + ".ts"),
	}
}

// HarnessV1CommitMatchesSpec: sha256(be(timestamp) ‖ be(revNumber) ‖ be(revHeight) ‖ sha256(data)).
func HarnessV1CommitMatchesSpec() {
	verif.NoPanic()
	p := v1Packet("p")
	got := chantypes.CommitPacket(p)
	want := sha(cat(sdk.Uint64ToBigEndian(p.TimeoutTimestamp), sdk.Uint64ToBigEndian(p.TimeoutHeight.RevisionNumber),
		sdk.Uint64ToBigEndian(p.TimeoutHeight.RevisionHeight), sha(p.Data)))
	verif.Reach("computed")
	verif.Assert(len(got) == 32, "v1 commitment is 32 bytes")
	verif.Assert(bytes.Equal(got, want), "v1 commitment equals the ICS-4 formula")
	ack := verif.Bytes("ack")
	verif.Assert(bytes.Equal(chantypes.CommitAcknowledgement(ack), sha(ack)), "v1 ack commitment is sha256 of the ack bytes")
}

// HarnessV1CommitInjective: equal v1 commitments imply equal timeout timestamp, timeout height and data
// (modulo sha256 collisions: collision freedom is assumed on the occurring hash applications).
func HarnessV1CommitInjective() {
	verif.NoPanic()
	verif.CollisionFree(true)
	p, q := v1Packet("p"), v1Packet("q")
	verif.Assume(bytes.Equal(chantypes.CommitPacket(p), chantypes.CommitPacket(q)))
	verif.Reach("equal commitments")
	verif.Assert(p.TimeoutTimestamp == q.TimeoutTimestamp, "timeout timestamp is bound")
	verif.Assert(p.TimeoutHeight.RevisionNumber == q.TimeoutHeight.RevisionNumber, "timeout revision number is bound")
	verif.Assert(p.TimeoutHeight.RevisionHeight == q.TimeoutHeight.RevisionHeight, "timeout revision height is bound")
	verif.Assert(bytes.Equal(p.Data, q.Data), "data is bound")
}

func payload(n string) v2.Payload {
	return v2.Payload{SourcePort: verif.String(n + ".sp"), DestinationPort: verif.String(n + ".dp"), Version: verif.String(n + ".ver"),
		Encoding: verif.String(n + ".enc"), Value: verif.Bytes(n + ".val")}
}

func v2Packet(n string, np int) v2.Packet {
	p := v2.Packet{Sequence: verif.Uint64(n + ".seq"), SourceClient: verif.String(n + ".sc"), DestinationClient: verif.String(n + ".dc"),
		TimeoutTimestamp: verif.Uint64(n + ".ts")}
	for i := 0; i < np; i++ {
		p.Payloads = append(p.Payloads, payload(n+".pl"+string(rune('0'+i))))
	}
	return p
}

func specPayloadHash(pl v2.Payload) []byte {
	return sha(cat(sha([]byte(pl.SourcePort)), sha([]byte(pl.DestinationPort)), sha([]byte(pl.Version)), sha([]byte(pl.Encoding)), sha(pl.Value)))
}

func specV2Commit(p v2.Packet) []byte {
	var app []byte
	for _, pl := range p.Payloads {
		app = append(app, specPayloadHash(pl)...)
	}
	return sha(cat([]byte{2}, sha([]byte(p.DestinationClient)), sha(sdk.Uint64ToBigEndian(p.TimeoutTimestamp)), sha(app)))
}

// HarnessV2CommitMatchesSpec: for 0..N payloads the v2 commitment equals
// sha256(0x02 ‖ H(destClient) ‖ H(be(timeout)) ‖ H(H(payload_1) ‖ … ‖ H(payload_n))), H(payload) = H(H(sp)‖H(dp)‖H(ver)‖H(enc)‖H(val)).
func HarnessV2CommitMatchesSpec() {
	verif.NoPanic()
	n := verif.Len("payloads", 0, 3)
	p := v2Packet("p", n)
	got := v2.CommitPacket(p)
	verif.Reach("computed")
	verif.Assert(len(got) == 32, "v2 commitment is 32 bytes")
	verif.Assert(bytes.Equal(got, specV2Commit(p)), "v2 commitment equals the specification formula")
}

// HarnessV2CommitInjective: equal v2 commitments imply equal payload counts, destination client, timeout and,
// for every payload in order, equal ports, version, encoding and value (modulo sha256 collisions).
func HarnessV2CommitInjective() {
	verif.NoPanic()
	verif.CollisionFree(true)
	n, m := verif.Len("np", 0, 2), verif.Len("nq", 0, 2)
	p, q := v2Packet("p", n), v2Packet("q", m)
	verif.Assume(bytes.Equal(v2.CommitPacket(p), v2.CommitPacket(q)))
	verif.Reach("equal commitments")
	verif.Assert(n == m, "payload count is bound")
	verif.Assert(p.DestinationClient == q.DestinationClient, "destination client is bound")
	verif.Assert(p.TimeoutTimestamp == q.TimeoutTimestamp, "timeout is bound")
	if n == m {
		for i := 0; i < n; i++ {
			a, b := p.Payloads[i], q.Payloads[i]
			verif.Assert(a.SourcePort == b.SourcePort, "payload source port is bound")
			verif.Assert(a.DestinationPort == b.DestinationPort, "payload destination port is bound")
			verif.Assert(a.Version == b.Version, "payload version is bound")
			verif.Assert(a.Encoding == b.Encoding, "payload encoding is bound")
			verif.Assert(bytes.Equal(a.Value, b.Value), "payload value is bound")
		}
	}
}

// HarnessV2AckCommit: ack commitment = sha256(0x02 ‖ sha256(ack_1) ‖ … ‖ sha256(ack_n)), binding every app ack in order.
func HarnessV2AckCommit() {
	verif.NoPanic()
	verif.CollisionFree(true)
	n, m := verif.Len("na", 0, 3), verif.Len("nb", 0, 3)
	var a, b v2.Acknowledgement
	var spec []byte
	for i := 0; i < n; i++ {
		x := verif.Bytes("a" + string(rune('0'+i)))
		a.AppAcknowledgements = append(a.AppAcknowledgements, x)
		spec = append(spec, sha(x)...)
	}
	for i := 0; i < m; i++ {
		b.AppAcknowledgements = append(b.AppAcknowledgements, verif.Bytes("b"+string(rune('0'+i))))
	}
	ca, cb := v2.CommitAcknowledgement(a), v2.CommitAcknowledgement(b)
	verif.Reach("computed")
	verif.Assert(bytes.Equal(ca, sha(cat([]byte{2}, spec))), "v2 ack commitment equals the specification formula")
	if bytes.Equal(ca, cb) {
		verif.Assert(n == m, "ack count is bound")
		if n == m {
			for i := 0; i < n; i++ {
				verif.Assert(bytes.Equal(a.AppAcknowledgements[i], b.AppAcknowledgements[i]), "every app acknowledgement is bound in order")
			}
		}
	}
}

// HarnessV1V2Distinct: a v2 commitment preimage starts with 0x02 and is 97 bytes; a v1 preimage is 56 bytes:
// the two formulas never produce the same preimage.
func HarnessV1V2Distinct() {
	verif.NoPanic()
	verif.CollisionFree(true)
	p := v1Packet("p")
	q := v2Packet("q", verif.Len("nq", 0, 2))
	verif.Assert(!bytes.Equal(chantypes.CommitPacket(p), v2.CommitPacket(q)), "v1 and v2 commitments never coincide (different preimage lengths)")
	verif.Reach("end")
}
