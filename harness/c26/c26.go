// Package c26: solo machine signatures are single-use and timestamps never decrease. The signer is idealised
// (verif.Sign: a signature verifies only for the message it was made for); what the solo machine signed is arbitrary,
// and the real verification code must accept exactly when that is the sign-bytes of the current sequence, the proof's
// timestamp, the client's diversifier and the path and data being proven.
package c26

import (
	"bytes"
	_ "unsafe"

	"github.com/cosmos/cosmos-sdk/codec"
	codectypes "github.com/cosmos/cosmos-sdk/codec/types"
	storetypes "github.com/cosmos/cosmos-sdk/store/v2/types"

	commitmenttypesv2 "github.com/cosmos/ibc-go/v11/modules/core/23-commitment/types/v2"
	"github.com/cosmos/ibc-go/v11/modules/core/exported"
	solomachine "github.com/cosmos/ibc-go/v11/modules/light-clients/06-solomachine"

	"verifharness/models"
	"verifharness/verif"
)

//go:linkname verifyMembership github.com/cosmos/ibc-go/v11/modules/light-clients/06-solomachine.(*ClientState).verifyMembership
func verifyMembership(cs *solomachine.ClientState, clientStore storetypes.KVStore, cdc codec.BinaryCodec, proof []byte, path exported.Path, value []byte) error

//go:linkname verifyNonMembership github.com/cosmos/ibc-go/v11/modules/light-clients/06-solomachine.(*ClientState).verifyNonMembership
func verifyNonMembership(cs *solomachine.ClientState, clientStore storetypes.KVStore, cdc codec.BinaryCodec, proof []byte, path exported.Path) error

//go:linkname verifyHeader github.com/cosmos/ibc-go/v11/modules/light-clients/06-solomachine.(*ClientState).verifyHeader
func verifyHeader(cs *solomachine.ClientState, cdc codec.BinaryCodec, header *solomachine.Header) error

//go:linkname verifyMisbehaviour github.com/cosmos/ibc-go/v11/modules/light-clients/06-solomachine.ClientState.verifyMisbehaviour
func verifyMisbehaviour(cs solomachine.ClientState, cdc codec.BinaryCodec, misbehaviour *solomachine.Misbehaviour) error

var cdc = models.Codec{}

func pubKeyAny() *codectypes.Any {
	a, err := codectypes.NewAnyWithValue(verif.SignerPubKey())
	if err != nil {
		panic(err)
	}
	return a
}

// symClient is a solo machine client with arbitrary sequence, diversifier and timestamp, keyed by the signer.
func symClient() *solomachine.ClientState {
	verif.CollisionFree(true) // signatures of different messages differ (unforgeability), as hashes do
	verif.RegisterIface("github.com/cosmos/ibc-go/v11/modules/core/exported.ClientState", &solomachine.ClientState{})
	verif.RegisterIface("", &solomachine.ClientState{})
	return &solomachine.ClientState{Sequence: verif.Uint64("client.sequence"), ConsensusState: &solomachine.ConsensusState{
		PublicKey: pubKeyAny(), Diversifier: verif.String("client.diversifier"), Timestamp: verif.Uint64("client.timestamp")}}
}

// signed is what the solo machine actually signed: arbitrary sign-bytes fields.
type signed struct {
	sb  solomachine.SignBytes
	sig []byte
}

func symSigned(tag string) signed { return symSignedOver(tag, nil, nil) }

// symSignedOver: the signed path / data are either the given encoded values (when the solo machine signed what is
// claimed; encodings are opaque to the solver, so "equal to the claim" has to be a choice, not a coincidence) or arbitrary bytes.
func symSignedOver(tag string, claimedPath, claimedData []byte) signed {
	sb := solomachine.SignBytes{Sequence: verif.Uint64(tag + ".sequence"), Timestamp: verif.Uint64(tag + ".timestamp"), Diversifier: verif.String(tag + ".diversifier")}
	if claimedPath != nil && verif.Bool(tag+".pathAsClaimed") {
		sb.Path = claimedPath
	} else {
		sb.Path = verif.Bytes(tag + ".path")
	}
	if claimedData != nil && verif.Bool(tag+".dataAsClaimed") {
		sb.Data = claimedData
	} else {
		sb.Data = verif.Bytes(tag + ".data")
	}
	return signed{sb: sb, sig: verif.Sign(cdc.MustMarshal(&sb))}
}

func proofOf(s signed, timestamp uint64) []byte {
	return cdc.MustMarshal(&solomachine.TimestampedSignatureData{SignatureData: verif.SignatureData(s.sig), Timestamp: timestamp})
}

func store() storetypes.KVStore {
	return models.KVStoreAdapter(models.Store{Ctx: verif.NewCtx(), Name: "client"})
}

// proofStep: one membership / non-membership verification with a signature over arbitrary sign-bytes.
func proofStep(membership bool) {
	cs := symClient()
	seq0, ts0, div := cs.Sequence, cs.ConsensusState.Timestamp, cs.ConsensusState.Diversifier
	s := symSigned("signed")
	pts := verif.Uint64("proof.timestamp")
	proof := proofOf(s, pts)
	key := verif.Bytes("path.key")
	path := commitmenttypesv2.NewMerklePath(verif.Bytes("path.prefix"), key)
	value := verif.Bytes("value")
	st := store()
	var err error
	if membership {
		err = verifyMembership(cs, st, cdc, proof, path, value)
	} else {
		value = nil
		err = verifyNonMembership(cs, st, cdc, proof, path)
	}
	verif.Reach("verified or refused")
	exact := s.sb.Sequence == seq0 && s.sb.Timestamp == pts && s.sb.Diversifier == div && bytes.Equal(s.sb.Path, key) && bytes.Equal(s.sb.Data, value)
	if err != nil {
		verif.Reach("refused")
		verif.Assert(cs.Sequence == seq0 && cs.ConsensusState.Timestamp == ts0, "a refused proof consumes nothing")
		verif.Assert(!exact || pts < ts0, "a signature over exactly the current sequence, timestamp, diversifier, path and data is refused only for a timestamp in the past")
		return
	}
	verif.Reach("accepted")
	verif.Assert(exact, "a proof is accepted only over the exact sequence, timestamp, diversifier, path and data that were signed")
	verif.Assert(cs.Sequence == seq0+1, "a successful verification consumes the sequence")
	verif.Assert(cs.ConsensusState.Timestamp == pts && pts >= ts0, "the consensus timestamp moves to the proof's timestamp and never decreases")
	// replay of the same proof against the updated client
	var again error
	if membership {
		again = verifyMembership(cs, st, cdc, proof, path, value)
	} else {
		again = verifyNonMembership(cs, st, cdc, proof, path)
	}
	verif.Assert(again != nil, "the same signature is not accepted a second time")
}

// HarnessMembershipSingleUse / HarnessNonMembershipSingleUse.
func HarnessMembershipSingleUse()    { proofStep(true) }
func HarnessNonMembershipSingleUse() { proofStep(false) }

// HarnessHeaderSignBytes: a header is accepted only with a signature over the current sequence, the header's
// timestamp (not in the past), the current diversifier, the header sentinel path and the new key and diversifier.
func HarnessHeaderSignBytes() {
	cs := symClient()
	seq0, ts0, div := cs.Sequence, cs.ConsensusState.Timestamp, cs.ConsensusState.Diversifier
	h := &solomachine.Header{Timestamp: verif.Uint64("header.timestamp"), NewPublicKey: pubKeyAny(), NewDiversifier: verif.String("header.newDiversifier")}
	data := cdc.MustMarshal(&solomachine.HeaderData{NewPubKey: h.NewPublicKey, NewDiversifier: h.NewDiversifier})
	s := symSignedOver("signed", nil, data)
	h.Signature = verif.SignatureData(s.sig)
	err := verifyHeader(cs, cdc, h)
	verif.Reach("verified or refused")
	exact := s.sb.Sequence == seq0 && s.sb.Timestamp == h.Timestamp && s.sb.Diversifier == div && bytes.Equal(s.sb.Path, []byte(solomachine.SentinelHeaderPath)) && bytes.Equal(s.sb.Data, data)
	if err != nil {
		verif.Reach("refused")
		verif.Assert(!exact || h.Timestamp < ts0, "a correctly signed header is refused only for a timestamp in the past")
		return
	}
	verif.Reach("accepted")
	verif.Assert(exact && h.Timestamp >= ts0, "a header is accepted only over exactly its own sign-bytes and a timestamp that does not go back")
	cs.UpdateState(verif.NewCtx(), cdc, store(), h)
	verif.Assert(cs.Sequence == seq0+1 && cs.ConsensusState.Timestamp == h.Timestamp, "the update consumes the sequence and adopts the header's timestamp")
}

// HarnessMisbehaviourEvidence: evidence of two signatures is accepted exactly when both are over the evidence's own
// sequence (whatever the client's current sequence is), their own timestamps, the client's diversifier and their path and data.
func HarnessMisbehaviourEvidence() {
	cs := symClient()
	div := cs.ConsensusState.Diversifier
	mp := cdc.MustMarshal(&commitmenttypesv2.MerklePath{KeyPath: [][]byte{verif.Bytes("mp0"), verif.Bytes("mp1")}})
	s1, s2 := symSignedOver("one", mp, nil), symSignedOver("two", mp, nil)
	m := &solomachine.Misbehaviour{Sequence: verif.Uint64("evidence.sequence"),
		SignatureOne: &solomachine.SignatureAndData{Signature: verif.SignatureData(s1.sig), Path: mp, Data: verif.Bytes("one.claimedData"), Timestamp: verif.Uint64("one.claimedTimestamp")},
		SignatureTwo: &solomachine.SignatureAndData{Signature: verif.SignatureData(s2.sig), Path: mp, Data: verif.Bytes("two.claimedData"), Timestamp: verif.Uint64("two.claimedTimestamp")}}
	err := verifyMisbehaviour(*cs, cdc, m)
	verif.Reach("verified or refused")
	ok := func(s signed, sd *solomachine.SignatureAndData) bool {
		return s.sb.Sequence == m.Sequence && s.sb.Timestamp == sd.Timestamp && s.sb.Diversifier == div && bytes.Equal(s.sb.Path, sd.Path) && bytes.Equal(s.sb.Data, sd.Data)
	}
	both := ok(s1, m.SignatureOne) && ok(s2, m.SignatureTwo)
	if err == nil {
		verif.Reach("evidence accepted")
		verif.Assert(both, "evidence is accepted only if both signatures are over the evidence's sequence and the claimed timestamp, path and data")
	} else {
		verif.Reach("evidence refused")
		verif.Assert(!both, "two valid signatures for one sequence are accepted as misbehaviour whatever the client's current sequence")
	}
}
