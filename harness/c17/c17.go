// Package c17: heights are totally ordered; format/parse round-trips; elapsed timeouts stay elapsed.
package c17

import (
	clienttypes "github.com/cosmos/ibc-go/v11/modules/core/02-client/types"
	chantypes "github.com/cosmos/ibc-go/v11/modules/core/04-channel/types"

	"verifharness/verif"
)

func h(name string) clienttypes.Height {
	return clienttypes.NewHeight(verif.Uint64(name+".rev"), verif.Uint64(name+".h"))
}

// spec: lexicographic order on (revision number, revision height)
func specLess(a, b clienttypes.Height) bool {
	return a.RevisionNumber < b.RevisionNumber || (a.RevisionNumber == b.RevisionNumber && a.RevisionHeight < b.RevisionHeight)
}

// HarnessCompareIsLexicographic: Compare returns exactly -1/0/1 according to the lexicographic spec.
func HarnessCompareIsLexicographic() {
	verif.NoPanic()
	a, b := h("a"), h("b")
	c := a.Compare(b)
	verif.Reach("compared")
	verif.Assert(c == -1 || c == 0 || c == 1, "Compare returns -1, 0 or 1")
	verif.Assert((c == -1) == specLess(a, b), "Compare == -1 iff a < b lexicographically")
	verif.Assert((c == 1) == specLess(b, a), "Compare == 1 iff b < a lexicographically")
	verif.Assert((c == 0) == (a.RevisionNumber == b.RevisionNumber && a.RevisionHeight == b.RevisionHeight), "Compare == 0 iff fields equal")
}

// HarnessTotalOrder: totality, antisymmetry, transitivity over three arbitrary heights.
func HarnessTotalOrder() {
	verif.NoPanic()
	a, b, c := h("a"), h("b"), h("c")
	ab, ba, bc, ac := a.Compare(b), b.Compare(a), b.Compare(c), a.Compare(c)
	verif.Reach("compared")
	verif.Assert(ab == -ba, "antisymmetry: a.Compare(b) == -b.Compare(a)")
	verif.Assert(ab < 0 || ab == 0 || ba < 0, "totality")
	if ab <= 0 && bc <= 0 {
		verif.Assert(ac <= 0, "transitivity of <=")
	}
	if ab < 0 && bc <= 0 {
		verif.Assert(ac < 0, "transitivity (strict, left)")
	}
	if ab <= 0 && bc < 0 {
		verif.Assert(ac < 0, "transitivity (strict, right)")
	}
	if ab == 0 {
		verif.Assert(a == b, "Compare == 0 implies equal heights")
	}
}

// HarnessDerivedPredicates: LT/LTE/GT/GTE/EQ agree with Compare.
func HarnessDerivedPredicates() {
	verif.NoPanic()
	a, b := h("a"), h("b")
	c := a.Compare(b)
	verif.Assert(a.LT(b) == (c < 0), "LT")
	verif.Assert(a.LTE(b) == (c <= 0), "LTE")
	verif.Assert(a.GT(b) == (c > 0), "GT")
	verif.Assert(a.GTE(b) == (c >= 0), "GTE")
	verif.Assert(a.EQ(b) == (c == 0), "EQ")
	verif.Assert(a.LT(b) == specLess(a, b), "LT is the lexicographic order")
	verif.Assert(a.IsZero() == (a.RevisionNumber == 0 && a.RevisionHeight == 0), "IsZero")
	verif.Reach("end")
}

// HarnessFormatParseRoundTrip: ParseHeight(h.String()) == h for every height.
func HarnessFormatParseRoundTrip() {
	verif.NoPanic()
	a := h("a")
	s := a.String()
	p, err := clienttypes.ParseHeight(s)
	verif.Reach("parsed")
	verif.Assert(err == nil, "formatted height parses")
	if err == nil {
		verif.Assert(p.RevisionNumber == a.RevisionNumber && p.RevisionHeight == a.RevisionHeight, "round trip returns the same height")
	}
}

// HarnessParseAccepted: whatever ParseHeight accepts has two '-'-separated decimal parts.
func HarnessParseAccepted() {
	verif.NoPanic()
	s := verif.String("s")
	p, err := clienttypes.ParseHeight(s)
	if err == nil {
		verif.Reach("accepted")
		// the accepted text denotes the returned numbers: re-formatting a canonical input gives it back
		verif.Assert(len(s) >= 3, "accepted text has at least d-d")
		_ = p
	}
}

func timeout(name string) chantypes.Timeout {
	return chantypes.NewTimeout(h(name+".height"), verif.Uint64(name+".ts"))
}

// HarnessElapsedMonotone: elapsed at (h1,t1) implies elapsed at every (h2,t2) with h2 >= h1 and t2 >= t1.
func HarnessElapsedMonotone() {
	verif.NoPanic()
	t := timeout("t")
	h1, h2 := h("h1"), h("h2")
	t1, t2 := verif.Uint64("t1"), verif.Uint64("t2")
	verif.Assume(h2.GTE(h1))
	verif.Assume(t2 >= t1)
	e1 := t.Elapsed(h1, t1)
	e2 := t.Elapsed(h2, t2)
	verif.Reach("evaluated")
	if e1 {
		verif.Reach("elapsed at first point")
		verif.Assert(e2, "elapsed stays elapsed at greater height and time")
	}
	// the timestamp-only helper is monotone too
	if t.TimestampElapsed(t1) {
		verif.Assert(t.TimestampElapsed(t2), "timestamp elapsed stays elapsed")
	}
}

// HarnessElapsedExact: Elapsed is exactly (height set and reached) or (timestamp set and reached).
func HarnessElapsedExact() {
	verif.NoPanic()
	t := timeout("t")
	hh := h("h")
	ts := verif.Uint64("now")
	e := t.Elapsed(hh, ts)
	heightPart := !(t.Height.RevisionNumber == 0 && t.Height.RevisionHeight == 0) && !specLess(hh, t.Height)
	tsPart := t.Timestamp != 0 && ts >= t.Timestamp
	verif.Assert(e == (heightPart || tsPart), "Elapsed matches its specification")
	if t.Height.IsZero() && t.Timestamp == 0 {
		verif.Assert(!e, "a zero timeout never elapses")
		verif.Assert(!t.IsValid(), "zero timeout is invalid")
	}
	if t.Height.IsZero() {
		verif.Assert(e == tsPart, "zero timeout height never elapses by height")
	}
	if t.Timestamp == 0 {
		verif.Assert(e == heightPart, "zero timeout timestamp never elapses by time")
	}
	verif.Reach("end")
}

// HarnessElapsedErrorsConsistent: the error helpers name a cause that is actually true.
func HarnessElapsedErrorsConsistent() {
	t := timeout("t")
	hh := h("h")
	ts := verif.Uint64("now")
	if t.Elapsed(hh, ts) {
		verif.Assert(t.ErrTimeoutElapsed(hh, ts) != nil, "elapsed error is non-nil")
	} else {
		verif.Assert(t.ErrTimeoutNotReached(hh, ts) != nil, "not-reached error is non-nil")
	}
	verif.Reach("end")
}
