// Package c41: rate-limit flows track exactly the accepted transfers and never exceed the quota.
package c41

import (
	sdkmath "cosmossdk.io/math"

	rltypes "github.com/cosmos/ibc-go/v11/modules/apps/rate-limiting/types"

	"verifharness/verif"
)

func symFlowQuota() (rltypes.Flow, rltypes.Quota) {
	f := rltypes.Flow{Inflow: verif.SdkInt("inflow"), Outflow: verif.SdkInt("outflow"), ChannelValue: verif.SdkInt("channelValue")}
	q := rltypes.Quota{MaxPercentSend: verif.SdkInt("pctSend"), MaxPercentRecv: verif.SdkInt("pctRecv"), DurationHours: verif.Uint64("hours")}
	verif.Assume(!f.Inflow.IsNegative() && !f.Outflow.IsNegative() && !f.ChannelValue.IsNegative())
	verif.Assume(!q.MaxPercentSend.IsNegative() && q.MaxPercentSend.LTE(sdkmath.NewInt(100)) && !q.MaxPercentRecv.IsNegative() && q.MaxPercentRecv.LTE(sdkmath.NewInt(100)))
	return f, q
}

func step(positiveChannelValue bool) {
	verif.NoPanic()
	f, q := symFlowQuota()
	if positiveChannelValue {
		verif.Assume(f.ChannelValue.IsPositive())
	}
	amount := verif.SdkInt("amount")
	verif.Assume(amount.IsPositive())
	send := verif.Bool("send")
	in0, out0 := f.Inflow, f.Outflow
	var err error
	if send {
		err = f.AddOutflow(amount, q)
	} else {
		err = f.AddInflow(amount, q)
	}
	verif.Reach("returned")
	if err != nil {
		verif.Reach("rejected")
		verif.Assert(f.Inflow.Equal(in0) && f.Outflow.Equal(out0), "a rejected transfer leaves both flows unchanged")
		return
	}
	verif.Reach("accepted")
	if send {
		verif.Assert(f.Outflow.Equal(out0.Add(amount)) && f.Inflow.Equal(in0), "an accepted send adds exactly its amount to the outflow")
		net := f.Outflow.Sub(f.Inflow)
		// net <= floor(channelValue * pct / 100)  <=>  net * 100 <= channelValue * pct  (net, pct, channelValue integers, for net >= 0)
		verif.Assert(net.IsNegative() || net.MulRaw(100).LTE(f.ChannelValue.Mul(q.MaxPercentSend)), "after an accepted send the net outflow is within the send quota")
	} else {
		verif.Assert(f.Inflow.Equal(in0.Add(amount)) && f.Outflow.Equal(out0), "an accepted receive adds exactly its amount to the inflow")
		net := f.Inflow.Sub(f.Outflow)
		verif.Assert(net.IsNegative() || net.MulRaw(100).LTE(f.ChannelValue.Mul(q.MaxPercentRecv)), "after an accepted receive the net inflow is within the receive quota")
	}
}

// HarnessFlowStep: one AddInflow/AddOutflow step from an arbitrary flow and quota (all amounts arbitrary non-negative
// integers, percentages 0..100).
func HarnessFlowStep() { step(false) }

// HarnessFlowStepPositiveChannelValue: the same with a positive channel value (the complement of known finding F5).
func HarnessFlowStepPositiveChannelValue() { step(true) }

// HarnessQuotaThreshold: CheckExceedsQuota(amount) is exactly amount > floor(channelValue * pct / 100) for a positive channel value.
func HarnessQuotaThreshold() {
	verif.NoPanic()
	q := rltypes.Quota{MaxPercentSend: verif.SdkInt("pctSend"), MaxPercentRecv: verif.SdkInt("pctRecv")}
	verif.Assume(!q.MaxPercentSend.IsNegative() && q.MaxPercentSend.LTE(sdkmath.NewInt(100)) && !q.MaxPercentRecv.IsNegative() && q.MaxPercentRecv.LTE(sdkmath.NewInt(100)))
	amount, total := verif.SdkInt("amount"), verif.SdkInt("total")
	verif.Assume(!amount.IsNegative() && total.IsPositive())
	send := verif.Bool("send")
	dir, pct := rltypes.PACKET_RECV, q.MaxPercentRecv
	if send {
		dir, pct = rltypes.PACKET_SEND, q.MaxPercentSend
	}
	got := q.CheckExceedsQuota(dir, amount, total)
	verif.Reach("evaluated")
	verif.Assert(got == amount.MulRaw(100).GT(total.Mul(pct)), "exceeds iff amount*100 > channelValue*percent")
}
