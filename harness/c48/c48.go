// Package c48: port routing is unambiguous and independent of map iteration and registration order.
package c48

import (
	"strings"

	portkeeper "github.com/cosmos/ibc-go/v11/modules/core/05-port/keeper"
	porttypes "github.com/cosmos/ibc-go/v11/modules/core/05-port/types"
	"github.com/cosmos/ibc-go/v11/modules/core/api"

	"verifharness/models"
	"verifharness/verif"
)

// HarnessV2RouterUnambiguous: up to 2 exact routes and 2 prefix routes with arbitrary alphanumeric names are registered in
// an arbitrary order through the real AddRoute/AddPrefixRoute (a refused registration panics and is skipped). For every
// port at most one registered entry matches, and the lookup result does not depend on the map iteration order.
func HarnessV2RouterUnambiguous() {
	verif.PermuteMaps(true)
	r := api.NewRouter()
	apps := []*models.SymAppV2{{}, {}, {}, {}}
	names := []string{verif.String("route0"), verif.String("route1"), verif.String("prefix0"), verif.String("prefix1")}
	isPrefix := []bool{false, false, true, true}
	// registration order: a symbolic rotation/reversal of the four registrations
	order := [][]int{{0, 1, 2, 3}, {2, 3, 0, 1}, {0, 2, 1, 3}, {3, 1, 2, 0}, {2, 0, 3, 1}, {1, 3, 0, 2}}[verif.Choice("order", 6)]
	registered := make([]bool, 4)
	for _, i := range order {
		i := i
		refused := verif.Panics(func() {
			if isPrefix[i] {
				r.AddPrefixRoute(names[i], apps[i])
			} else {
				r.AddRoute(names[i], apps[i])
			}
		})
		registered[i] = !refused
	}
	port := verif.String("port")
	matches := 0
	for i := range names {
		if registered[i] {
			if isPrefix[i] {
				if strings.HasPrefix(port, names[i]) {
					matches++
				}
			} else if port == names[i] {
				matches++
			}
		}
	}
	verif.Reach("registered")
	verif.Assert(matches <= 1, "at most one registered route or prefix matches any port")
	has1 := r.HasRoute(port)
	has2 := r.HasRoute(port)
	verif.Assert(has1 == has2, "route existence does not depend on map iteration order")
	verif.Assert(has1 == (matches == 1), "a port is routable iff exactly one registered entry matches")
	if has1 {
		verif.Reach("routable")
		m1, m2 := r.Route(port), r.Route(port)
		verif.Assert(m1 == m2, "the routed module does not depend on map iteration order")
	}
}

// HarnessV1RouterDeterministic: the v1 port keeper resolves a port to the exact route if present, otherwise to the route of the
// lexicographically smallest registered name contained in the port id — whatever the map iteration order.
func HarnessV1RouterDeterministic() {
	verif.PermuteMaps(true)
	r := porttypes.NewRouter()
	apps := []*models.SymApp{{}, {}}
	names := []string{verif.String("route0"), verif.String("route1")}
	if verif.Thorough() {
		apps = append(apps, &models.SymApp{})
		names = append(names, verif.String("route2"))
	}
	registered := make([]bool, len(names))
	for i := range names {
		i := i
		registered[i] = !verif.Panics(func() { r.AddRoute(names[i], apps[i]) })
	}
	k := portkeeper.NewKeeper()
	k.Router = r
	port := verif.String("port")
	m1, ok1 := k.Route(port)
	m2, ok2 := k.Route(port)
	verif.Reach("routed")
	verif.Assert(ok1 == ok2, "v1 route existence does not depend on map iteration order")
	if ok1 && ok2 {
		verif.Assert(m1 == m2, "the v1 routed module does not depend on map iteration order")
	}
	// specification
	best := -1
	for i := range names {
		if registered[i] && names[i] == port {
			best = i
		}
	}
	if best < 0 {
		for i := range names {
			if registered[i] && strings.Contains(port, names[i]) && (best < 0 || names[i] < names[best]) {
				best = i
			}
		}
	}
	verif.Assert(ok1 == (best >= 0), "a port is routable iff some registered name equals it or is contained in it")
	if ok1 && best >= 0 {
		verif.Assert(m1 == porttypes.IBCModule(apps[best]), "exact match wins, otherwise the smallest contained name")
	}
}
