// Package c33: vouchers can always return over their channel as the original token.
package c33

import (
	"regexp"
	"strings"

	sdk "github.com/cosmos/cosmos-sdk/types"

	transfertypes "github.com/cosmos/ibc-go/v11/modules/apps/transfer/types"
	clienttypes "github.com/cosmos/ibc-go/v11/modules/core/02-client/types"
	chantypes "github.com/cosmos/ibc-go/v11/modules/core/04-channel/types"
	host "github.com/cosmos/ibc-go/v11/modules/core/24-host"

	"verifharness/verif"
)

// baseDenom builds a base denomination of 1..3 '/'-separated, slash-free, non-empty segments accepted by sdk.ValidateDenom.
func baseDenom(validate bool) (string, []string) {
	n := verif.Len("baseSegments", 1, 3)
	var segs []string
	for i := 0; i < n; i++ {
		x := verif.String("seg" + string(rune('0'+i)))
		verif.Assume(!strings.Contains(x, "/") && x != "")
		if i%2 == 1 {
			// the segments the parser inspects as hop candidates come in three shapes (stated bound):
			// "channel-<n>", "<t>-<n>" with t dash-free, a dash-free string, or "channel-<digit string>"
			switch verif.Choice("shape"+string(rune('0'+i)), 4) {
			case 3:
				// "channel-<digits>" with an arbitrary digit string of 1..20 digits (may exceed 2^64-1)
				verif.Assume(isDigits(x) && len(x) <= 20)
				x = "channel-" + x
			case 0:
				x = "channel-" + verif.DecU64(verif.Uint64("segN"+string(rune('0'+i))))
			case 1:
				verif.Assume(!strings.Contains(x, "-"))
				x = x + "-" + verif.DecU64(verif.Uint64("segN"+string(rune('0'+i))))
			default:
				verif.Assume(!strings.Contains(x, "-"))
			}
		}
		segs = append(segs, x)
	}
	base := strings.Join(segs, "/")
	if validate {
		verif.Assume(sdk.ValidateDenom(base) == nil)
	}
	return base, segs
}

var digitsRe = regexp.MustCompile(`^[0-9]+$`)

func isDigits(s string) bool { return digitsRe.MatchString(s) }

func hop(validate bool) (string, string) {
	port := verif.String("port")
	if validate {
		verif.Assume(host.PortIdentifierValidator(port) == nil)
	} else {
		verif.Assume(!strings.Contains(port, "/") && port != "") // superset of the valid port identifiers
	}
	channel := "channel-" + verif.DecU64(verif.Uint64("channelSeq"))
	return port, channel
}

func looksLikeHop(seg string) bool {
	return chantypes.IsValidChannelID(seg) || clienttypes.IsValidClientID(seg)
}

// HarnessVoucherParsesBack: the denomination a chain receives for a native token X sent over (port, channel) is
// "port/channel/X"; when the voucher comes back, parsing that path must give trace [(port, channel)] and base X —
// otherwise the unwinding branch of ICS-20 cannot release the escrowed X.
func HarnessVoucherParsesBack() {
	verif.NoPanic()
	base, _ := baseDenom(true)
	port, channel := hop(true)
	d := transfertypes.ExtractDenomFromPath(port + "/" + channel + "/" + base)
	verif.Reach("parsed")
	verif.Assert(len(d.Trace) == 1, "exactly one hop is parsed from port/channel/base")
	if len(d.Trace) >= 1 {
		verif.Assert(d.Trace[0].PortId == port && d.Trace[0].ChannelId == channel, "the hop is the receiving (port, channel)")
	}
	verif.Assert(d.Base == base, "the base denomination is the original token")
}

// HarnessVoucherParsesBackUnambiguous: the same, restricted to base denominations none of whose inner segments has the
// shape of a channel or client identifier (the complement of the known finding F4).
func HarnessVoucherParsesBackUnambiguous() {
	verif.NoPanic()
	base, segs := baseDenom(false) // any slash-free non-empty segments: a superset of the valid denominations
	for i := 1; i < len(segs); i += 2 {
		verif.Assume(!looksLikeHop(segs[i]))
	}
	port, channel := hop(false)
	d := transfertypes.ExtractDenomFromPath(port + "/" + channel + "/" + base)
	verif.Reach("parsed")
	verif.Assert(len(d.Trace) == 1 && d.Trace[0].PortId == port && d.Trace[0].ChannelId == channel, "one hop: the receiving (port, channel)")
	verif.Assert(d.Base == base, "the base denomination is the original token")
	verif.Assert(d.HasPrefix(port, channel), "the voucher is recognised as returning over (port, channel)")
}
