// Package c34: denomination paths round-trip and determine voucher names.
package c34

import (
	"bytes"
	"encoding/hex"
	"strings"

	transfertypes "github.com/cosmos/ibc-go/v11/modules/apps/transfer/types"

	"verifharness/verif"
)

// symPath is a path of 1..max '/'-separated arbitrary slash-free segments (empty segments included).
func symPath(max int) (string, []string) {
	n := verif.Len("segments", 1, max)
	var segs []string
	for i := 0; i < n; i++ {
		x := verif.String("seg" + string(rune('0'+i)))
		verif.Assume(!strings.Contains(x, "/"))
		segs = append(segs, x)
	}
	return strings.Join(segs, "/"), segs
}

func maxSegments() int {
	if verif.Thorough() {
		return 7
	}
	return 6
}

// HarnessPathRoundTrip: for every path, parsing into (trace, base) and serialising gives the same string back
// whenever ICS-20 accepts the parsed denomination; and the voucher name is the hash of exactly that string.
func HarnessPathRoundTrip() {
	verif.NoPanic()
	verif.AbstractHopSyntax(true)
	verif.AbstractIdentifiers(true)
	path, _ := symPath(maxSegments())
	d := transfertypes.ExtractDenomFromPath(path)
	verif.Reach("parsed")
	if d.Validate() != nil {
		verif.Reach("rejected by ICS-20")
		return
	}
	verif.Reach("accepted by ICS-20")
	verif.Assert(d.Path() == path, "an accepted path serialises back to the same string")
	if len(d.Trace) == 0 {
		verif.Assert(d.IBCDenom() == path, "without a trace the denomination is the base itself")
	} else {
		verif.Assert(d.IBCDenom() == "ibc/"+strings.ToUpper(hex.EncodeToString(verif.Sha256([]byte(path)))), "the voucher name is the upper-case hex SHA-256 of the full path")
	}
}

// HarnessTraceBaseRoundTrip: the other direction — a denomination whose base is not itself hop-shaped at its start
// serialises to a path that parses back to the same trace and base (0..2 hops with arbitrary valid-looking identifiers).
func HarnessTraceBaseRoundTrip() {
	verif.NoPanic()
	verif.LightDecimals(true)
	base := verif.String("base")
	verif.Assume(!strings.Contains(base, "/") && base != "")
	n := verif.Len("hops", 0, 2)
	d := transfertypes.Denom{Base: base}
	for i := 0; i < n; i++ {
		t := "hop" + string(rune('0'+i))
		port := verif.String(t + ".port")
		verif.Assume(!strings.Contains(port, "/"))
		ch := "channel-" + verif.DecU64(verif.Uint64(t+".channel"))
		d.Trace = append(d.Trace, transfertypes.NewHop(port, ch))
	}
	got := transfertypes.ExtractDenomFromPath(d.Path())
	verif.Reach("parsed back")
	if n == 0 {
		verif.Assert(got.Base == base && len(got.Trace) == 0, "a slash-free native denomination parses to itself")
		return
	}
	verif.Assert(len(got.Trace) == n && got.Base == base, "trace and base are recovered from the serialised path")
	for i := 0; i < n && i < len(got.Trace); i++ {
		verif.Assert(got.Trace[i] == d.Trace[i], "each hop is recovered")
	}
}

// HarnessEscrowAddressesDistinct: distinct (port, channel) pairs have distinct escrow addresses, barring SHA-256 collisions.
func HarnessEscrowAddressesDistinct() {
	verif.CollisionFree(true)
	p1, c1, p2, c2 := verif.String("port1"), verif.String("channel1"), verif.String("port2"), verif.String("channel2")
	verif.Assume(!strings.Contains(p1, "/") && !strings.Contains(p2, "/")) // valid port identifiers contain no '/'
	verif.Assume(!strings.Contains(c1, "/") && !strings.Contains(c2, "/"))
	a1, a2 := transfertypes.GetEscrowAddress(p1, c1), transfertypes.GetEscrowAddress(p2, c2)
	verif.Reach("derived")
	if p1 != p2 || c1 != c2 {
		verif.Assert(!bytes.Equal(sha(p1, c1), sha(p2, c2)), "distinct pairs hash distinct pre-images")
	}
	verif.Assert(len(a1) == 20 && len(a2) == 20, "escrow addresses are 20 bytes")
}

// sha is the escrow address pre-image hash (ADR 028: sha256("ics20-1" || 0 || port "/" channel)).
func sha(port, channel string) []byte {
	return verif.Sha256(append(append([]byte("ics20-1"), 0), []byte(port+"/"+channel)...))
}
