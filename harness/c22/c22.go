// Package c22: Tendermint consensus metadata stays consistent and ordered. The client store holds a bounded number of
// consensus states written through the real setters at arbitrary distinct heights (and nothing else under the consensus
// state and iteration prefixes); the real lookups, iteration and pruning are then checked against their specification.
package c22

import (
	"bytes"
	"time"
	_ "unsafe"

	"github.com/cosmos/cosmos-sdk/codec"
	storetypes "github.com/cosmos/cosmos-sdk/store/v2/types"
	sdk "github.com/cosmos/cosmos-sdk/types"

	clienttypes "github.com/cosmos/ibc-go/v11/modules/core/02-client/types"
	commitmenttypes "github.com/cosmos/ibc-go/v11/modules/core/23-commitment/types"
	host "github.com/cosmos/ibc-go/v11/modules/core/24-host"
	"github.com/cosmos/ibc-go/v11/modules/core/exported"
	ibctm "github.com/cosmos/ibc-go/v11/modules/light-clients/07-tendermint"

	"verifharness/models"
	"verifharness/verif"
)

//go:linkname setConsensusState github.com/cosmos/ibc-go/v11/modules/light-clients/07-tendermint.setConsensusState
func setConsensusState(clientStore storetypes.KVStore, cdc codec.BinaryCodec, consensusState *ibctm.ConsensusState, height exported.Height)

//go:linkname setConsensusMetadataWithValues github.com/cosmos/ibc-go/v11/modules/light-clients/07-tendermint.setConsensusMetadataWithValues
func setConsensusMetadataWithValues(clientStore storetypes.KVStore, height, processedHeight exported.Height, processedTime uint64)

//go:linkname deleteConsensusMetadata github.com/cosmos/ibc-go/v11/modules/light-clients/07-tendermint.deleteConsensusMetadata
func deleteConsensusMetadata(clientStore storetypes.KVStore, height exported.Height)

//go:linkname pruneOldestConsensusState github.com/cosmos/ibc-go/v11/modules/light-clients/07-tendermint.(*ClientState).pruneOldestConsensusState
func pruneOldestConsensusState(cs *ibctm.ClientState, ctx sdk.Context, cdc codec.BinaryCodec, clientStore storetypes.KVStore)

const store = "client"

type world struct {
	ctx     sdk.Context
	st      storetypes.KVStore
	heights []clienttypes.Height
	states  []*ibctm.ConsensusState
}

func symHeight(tag string) clienttypes.Height {
	return clienttypes.NewHeight(verif.Uint64(tag+".rev"), verif.Uint64(tag+".height"))
}

// setup stores n consensus states with all their metadata at arbitrary pairwise distinct heights.
func setup(n int) *world {
	verif.LightDecimals(true)
	const csIface = "github.com/cosmos/ibc-go/v11/modules/core/exported.ConsensusState"
	verif.RegisterIface(csIface, &ibctm.ConsensusState{})
	verif.RegisterIface("", &ibctm.ConsensusState{})
	w := &world{ctx: verif.NewCtx()}
	verif.StClosePrefix(w.ctx, store, []byte(ibctm.KeyIterateConsensusStatePrefix))
	verif.StClosePrefix(w.ctx, store, []byte(host.KeyConsensusStatePrefix+"/"))
	w.st = models.KVStoreAdapter(models.Store{Ctx: w.ctx, Name: store})
	for i := 0; i < n; i++ {
		tag := "cs" + string(rune('0'+i))
		h := symHeight(tag)
		for _, o := range w.heights {
			verif.Assume(!h.EQ(o))
		}
		sec := verif.Int64(tag + ".sec")
		verif.Assume(sec >= 0 && sec < 253402300800) // protobuf's timestamp range, after 1970
		cs := &ibctm.ConsensusState{Timestamp: time.Unix(sec, 0).UTC(), Root: commitmenttypes.NewMerkleRoot(verif.Bytes(tag + ".root")), NextValidatorsHash: verif.Bytes(tag + ".valhash")}
		verif.Assume(len(cs.Root.Hash) > 0)
		setConsensusState(w.st, models.Codec{}, cs, h)
		setConsensusMetadataWithValues(w.st, h, symHeight(tag+".processed"), verif.Uint64(tag+".processedTime"))
		w.heights, w.states = append(w.heights, h), append(w.states, cs)
	}
	return w
}

// maxStored: the number of stored consensus states is bounded by 3 (quick) or 4 (thorough).
func maxStored() int {
	if verif.Thorough() {
		return 4
	}
	return 3
}

func same(a, b *ibctm.ConsensusState) bool {
	return a.Timestamp.Equal(b.Timestamp) && bytes.Equal(a.Root.Hash, b.Root.Hash) && bytes.Equal(a.NextValidatorsHash, b.NextValidatorsHash)
}

// HarnessNeighbours: GetNextConsensusState / GetPreviousConsensusState return the true neighbours of an arbitrary height.
func HarnessNeighbours() {
	w := setup(verif.Len("stored", 0, maxStored()))
	q := symHeight("query")
	next, okNext := ibctm.GetNextConsensusState(w.st, models.Codec{}, q)
	prev, okPrev := ibctm.GetPreviousConsensusState(w.st, models.Codec{}, q)
	verif.Reach("looked up")
	bn, bp := -1, -1
	for i, h := range w.heights {
		if h.GT(q) && (bn < 0 || h.LT(w.heights[bn])) {
			bn = i
		}
		if h.LT(q) && (bp < 0 || h.GT(w.heights[bp])) {
			bp = i
		}
	}
	verif.Assert(okNext == (bn >= 0), "a next consensus state is found exactly when a higher height is stored")
	verif.Assert(okPrev == (bp >= 0), "a previous consensus state is found exactly when a lower height is stored")
	if okNext && bn >= 0 {
		verif.Reach("next found")
		verif.Assert(same(next, w.states[bn]), "the next consensus state is the one at the lowest stored height above the query")
	}
	if okPrev && bp >= 0 {
		verif.Reach("previous found")
		verif.Assert(same(prev, w.states[bp]), "the previous consensus state is the one at the highest stored height below the query")
	}
}

// HarnessAscending: ascending iteration visits exactly the stored heights, in height order.
func HarnessAscending() {
	w := setup(verif.Len("stored", 0, maxStored()))
	var visited []exported.Height
	ibctm.IterateConsensusStateAscending(w.st, func(h exported.Height) bool {
		visited = append(visited, h)
		return false
	})
	verif.Reach("iterated")
	verif.Assert(len(visited) == len(w.heights), "every stored height is visited exactly once")
	for i, v := range visited {
		if i > 0 {
			verif.Assert(visited[i-1].LT(v), "heights are visited in ascending order")
		}
		known := false
		for _, h := range w.heights {
			if h.EQ(v) {
				known = true
			}
		}
		verif.Assert(known, "only stored heights are visited")
	}
}

func metadataPresent(w *world, h clienttypes.Height) (bool, bool, bool, bool) {
	_, cs := ibctm.GetConsensusState(w.st, models.Codec{}, h)
	_, pt := ibctm.GetProcessedTime(w.st, h)
	_, ph := ibctm.GetProcessedHeight(w.st, h)
	it := len(ibctm.GetIterationKey(w.st, h)) != 0
	return cs, pt, ph, it
}

// HarnessPrune: pruning during an update removes only the oldest consensus state, only when it has expired, together
// with all three metadata entries; every other entry stays.
func HarnessPrune() {
	w := setup(verif.Len("stored", 1, maxStored()))
	client := &ibctm.ClientState{TrustingPeriod: time.Duration(verif.Int64("trustingPeriod"))}
	verif.Assume(client.TrustingPeriod > 0)
	oldest := 0
	for i, h := range w.heights {
		if h.LT(w.heights[oldest]) {
			oldest = i
		}
	}
	snap := verif.StSnapshot(w.ctx, store)
	pruneOldestConsensusState(client, w.ctx, models.Codec{}, w.st)
	verif.Reach("pruned or kept")
	h := w.heights[oldest]
	if client.IsExpired(w.states[oldest].Timestamp, w.ctx.BlockTime()) {
		verif.Reach("oldest expired")
		cs, pt, ph, it := metadataPresent(w, h)
		verif.Assert(!cs && !pt && !ph && !it, "the expired oldest consensus state is removed together with all its metadata")
		verif.Assert(verif.StEqualExcept(w.ctx, store, snap, host.ConsensusStateKey(h), ibctm.ProcessedTimeKey(h), ibctm.ProcessedHeightKey(h), ibctm.IterationKey(h)), "nothing else is removed")
	} else {
		verif.Reach("oldest not expired")
		verif.Assert(verif.StEqual(w.ctx, store, snap), "nothing is removed while the oldest consensus state has not expired")
	}
}

// HarnessMetadataTogether: the three metadata entries are written and deleted together, for every height.
func HarnessMetadataTogether() {
	w := setup(1)
	h := w.heights[0]
	cs, pt, ph, it := metadataPresent(w, h)
	verif.Reach("stored")
	verif.Assert(cs && pt && ph && it, "a stored consensus state has a processed time, a processed height and an iteration entry")
	verif.Assert(bytes.Equal(ibctm.GetIterationKey(w.st, h), host.ConsensusStateKey(h)), "the iteration entry points at the consensus state's key")
	deleteConsensusMetadata(w.st, h)
	_, pt, ph, it = metadataPresent(w, h)
	verif.Assert(!pt && !ph && !it, "deleting the metadata removes all three entries")
}
