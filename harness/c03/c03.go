// Package c03: at most one terminal outcome (acknowledged or timed out) per sent packet.
package c03

import (
	"bytes"

	clienttypes "github.com/cosmos/ibc-go/v11/modules/core/02-client/types"
	chantypes "github.com/cosmos/ibc-go/v11/modules/core/04-channel/types"
	v2 "github.com/cosmos/ibc-go/v11/modules/core/04-channel/v2/types"
	host "github.com/cosmos/ibc-go/v11/modules/core/24-host"
	hostv2 "github.com/cosmos/ibc-go/v11/modules/core/24-host/v2"

	"verifharness/models"
	"verifharness/verif"
)

func height(n string) clienttypes.Height {
	return clienttypes.NewHeight(verif.Uint64(n+".rev"), verif.Uint64(n+".h"))
}

// v1 sender side: arbitrary channel end at the packet's source, over an arbitrary connection on the routed client.
func setupV1() (*models.World, chantypes.Packet, chantypes.Channel) {
	w := models.NewWorld()
	w.SetParams()
	p := chantypes.Packet{
		Sequence: verif.Uint64("seq"), SourcePort: models.AppPort, SourceChannel: verif.String("srcChan"),
		DestinationPort: verif.String("dstPort"), DestinationChannel: verif.String("dstChan"),
		Data: verif.Bytes("data"), TimeoutHeight: height("timeoutHeight"), TimeoutTimestamp: verif.Uint64("timeoutTs"),
	}
	connID, _ := w.SymConnection("conn")
	ch := w.SymChannel("chan", p.SourcePort, p.SourceChannel, connID)
	return w, p, ch
}

type outcome struct {
	noop, success bool
	err           error
}

func v1Ack(w *models.World, p chantypes.Packet) outcome {
	res, err := w.IBC.Acknowledgement(w.Ctx, &chantypes.MsgAcknowledgement{Packet: p, Acknowledgement: verif.Bytes("ack"), ProofAcked: verif.Bytes("proof"), ProofHeight: height("proofHeight"), Signer: models.Relayer})
	if err != nil {
		return outcome{err: err}
	}
	return outcome{noop: res.Result == chantypes.NOOP, success: res.Result == chantypes.SUCCESS}
}

func v1Timeout(w *models.World, p chantypes.Packet) outcome {
	res, err := w.IBC.Timeout(w.Ctx, &chantypes.MsgTimeout{Packet: p, ProofUnreceived: verif.Bytes("proof"), ProofHeight: height("proofHeight"), NextSequenceRecv: verif.Uint64("nextSeqRecv"), Signer: models.Relayer})
	if err != nil {
		return outcome{err: err}
	}
	return outcome{noop: res.Result == chantypes.NOOP, success: res.Result == chantypes.SUCCESS}
}

func v1Check(w *models.World, p chantypes.Packet, run func(*models.World, chantypes.Packet) outcome, callback string) {
	commitBefore := w.IBC.ChannelKeeper.GetPacketCommitment(w.Ctx, p.SourcePort, p.SourceChannel, p.Sequence)
	snap := verif.StSnapshot(w.Ctx, "ibc")
	o := run(w, p)
	verif.Reach("returned")
	calls := verif.CallCount("OnAcknowledgementPacket") + verif.CallCount("OnTimeoutPacket")
	if len(commitBefore) == 0 {
		verif.Reach("absent")
		verif.Assert(!o.success, "no commitment: never a successful terminal outcome")
		verif.Assert(calls == 0, "no commitment: no sender callback")
		verif.Assert(verif.StEqual(w.Ctx, "ibc", snap), "no commitment: no state change")
	}
	if o.success {
		verif.Reach("success")
		verif.Assert(bytes.Equal(commitBefore, chantypes.CommitPacket(p)), "success only if the stored commitment equals the packet's commitment")
		verif.Assert(len(w.IBC.ChannelKeeper.GetPacketCommitment(w.Ctx, p.SourcePort, p.SourceChannel, p.Sequence)) == 0, "success deletes the commitment")
		verif.Assert(calls == 1 && verif.CallCount(callback) == 1, "success runs exactly one sender callback of the right kind")
		verif.Assert(verif.StEqualExcept(w.Ctx, "ibc", snap,
			host.PacketCommitmentKey(p.SourcePort, p.SourceChannel, p.Sequence),
			host.NextSequenceAckKey(p.SourcePort, p.SourceChannel),
			host.ChannelKey(p.SourcePort, p.SourceChannel)),
			"success touches only the commitment, the ack counter and the channel end of this packet")
	}
	if len(commitBefore) != 0 && !bytes.Equal(commitBefore, chantypes.CommitPacket(p)) {
		verif.Reach("mismatch")
		verif.Assert(o.err != nil, "a packet that does not match the stored commitment is rejected")
		verif.Assert(calls == 0, "mismatch: no callback")
		verif.Assert(verif.StEqual(w.Ctx, "ibc", snap), "mismatch: no state change")
	}
	if o.err != nil && calls == 0 {
		verif.Assert(verif.StEqual(w.Ctx, "ibc", snap), "a failure before the callback changes no IBC state")
	}
}

// HarnessV1AckTerminal: MsgAcknowledgement from an arbitrary store.
func HarnessV1AckTerminal() {
	w, p, _ := setupV1()
	v1Check(w, p, v1Ack, "OnAcknowledgementPacket")
}

// HarnessV1TimeoutTerminal: MsgTimeout from an arbitrary store.
func HarnessV1TimeoutTerminal() {
	w, p, _ := setupV1()
	v1Check(w, p, v1Timeout, "OnTimeoutPacket")
}

func symPayload(n string) v2.Payload {
	return v2.Payload{SourcePort: models.AppPort, DestinationPort: verif.String(n + ".dstPort"), Version: verif.String(n + ".version"),
		Encoding: verif.String(n + ".encoding"), Value: verif.Bytes(n + ".value")}
}

func setupV2() (*models.World, v2.Packet) {
	w := models.NewWorld()
	w.SetParams()
	src := models.ClientID
	viaAlias := verif.Choice("viaAlias", 2) == 1
	if viaAlias {
		src = verif.String("alias")
		verif.Assume(src != models.ClientID && src != "")
	}
	w.SymCounterparty("cp", src)
	if viaAlias {
		w.IBC.ChannelKeeperV2.SetClientForAlias(w.Ctx, src, models.ClientID)
	} else {
		_, isAlias := w.IBC.ChannelKeeperV2.GetClientForAlias(w.Ctx, src)
		verif.Assume(!isAlias)
	}
	p := v2.Packet{Sequence: verif.Uint64("seq"), SourceClient: src, DestinationClient: verif.String("dstClient"), TimeoutTimestamp: verif.Uint64("timeout")}
	n := verif.Len("payloads", 1, 2)
	for i := 0; i < n; i++ {
		p.Payloads = append(p.Payloads, symPayload("pl"+string(rune('0'+i))))
	}
	return w, p
}

func v2Check(w *models.World, p v2.Packet, isAck bool) {
	commitBefore := w.IBC.ChannelKeeperV2.GetPacketCommitment(w.Ctx, p.SourceClient, p.Sequence)
	snap := verif.StSnapshot(w.Ctx, "ibc")
	var success bool
	var err error
	if isAck {
		ack := v2.Acknowledgement{}
		na := verif.Len("acks", 1, 2)
		for i := 0; i < na; i++ {
			ack.AppAcknowledgements = append(ack.AppAcknowledgements, verif.Bytes("ack"+string(rune('0'+i))))
		}
		verif.Assume(na == len(p.Payloads) || na == 1)
		var res *v2.MsgAcknowledgementResponse
		res, err = w.IBC.ChannelKeeperV2.Acknowledgement(w.Ctx, &v2.MsgAcknowledgement{Packet: p, Acknowledgement: ack, ProofAcked: verif.Bytes("proof"), ProofHeight: height("proofHeight"), Signer: models.Relayer})
		success = err == nil && res.Result == v2.SUCCESS
	} else {
		var res *v2.MsgTimeoutResponse
		res, err = w.IBC.ChannelKeeperV2.Timeout(w.Ctx, &v2.MsgTimeout{Packet: p, ProofUnreceived: verif.Bytes("proof"), ProofHeight: height("proofHeight"), Signer: models.Relayer})
		success = err == nil && res.Result == v2.SUCCESS
	}
	verif.Reach("returned")
	calls := verif.CallCount("V2.OnAcknowledgementPacket") + verif.CallCount("V2.OnTimeoutPacket")
	if len(commitBefore) == 0 {
		verif.Reach("absent")
		verif.Assert(!success, "v2 no commitment: never a successful terminal outcome")
		verif.Assert(calls == 0, "v2 no commitment: no sender callback")
		verif.Assert(verif.StEqual(w.Ctx, "ibc", snap), "v2 no commitment: no state change")
	}
	if success {
		verif.Reach("success")
		verif.Assert(bytes.Equal(commitBefore, v2.CommitPacket(p)), "v2 success only if the stored commitment equals the packet's commitment")
		verif.Assert(len(w.IBC.ChannelKeeperV2.GetPacketCommitment(w.Ctx, p.SourceClient, p.Sequence)) == 0, "v2 success deletes the commitment stored under the packet's source id")
		verif.Assert(calls == len(p.Payloads), "v2 success runs one sender callback per payload")
		verif.Assert(verif.StEqualExcept(w.Ctx, "ibc", snap, hostv2.PacketCommitmentKey(p.SourceClient, p.Sequence)), "v2 success touches only this packet's commitment")
	}
	if len(commitBefore) != 0 && !bytes.Equal(commitBefore, v2.CommitPacket(p)) {
		verif.Reach("mismatch")
		verif.Assert(err != nil, "v2: a packet that does not match the stored commitment is rejected")
		verif.Assert(verif.StEqual(w.Ctx, "ibc", snap), "v2 mismatch: no state change")
	}
}

// HarnessV2AckTerminal: v2 MsgAcknowledgement from an arbitrary store, direct client or channel alias.
func HarnessV2AckTerminal() {
	w, p := setupV2()
	v2Check(w, p, true)
}

// HarnessV2TimeoutTerminal: v2 MsgTimeout from an arbitrary store, direct client or channel alias.
func HarnessV2TimeoutTerminal() {
	w, p := setupV2()
	v2Check(w, p, false)
}
