package models

import (
	"time"

	ibctm "github.com/cosmos/ibc-go/v11/modules/light-clients/07-tendermint"

	cmtproto "github.com/cometbft/cometbft/proto/tendermint/types"
	"verifharness/verif"

	"encoding/hex"
	"strings"

	sdkmath "cosmossdk.io/math"

	sdk "github.com/cosmos/cosmos-sdk/types"
)

// Go models of the cosmos-sdk Coin / Coins value types (transcribed from the pinned SDK; amounts are mathematical
// integers, the 256-bit overflow panics are not modelled; results are not re-sorted).

//verif:model (github.com/cosmos/cosmos-sdk/types.Coins).AmountOf
func CoinsAmountOf(coins sdk.Coins, denom string) sdkmath.Int {
	for _, c := range coins {
		if c.Denom == denom {
			return c.Amount
		}
	}
	return sdkmath.ZeroInt()
}

//verif:model (github.com/cosmos/cosmos-sdk/types.Coins).AmountOfNoDenomValidation
func CoinsAmountOfNoValidation(coins sdk.Coins, denom string) sdkmath.Int {
	return CoinsAmountOf(coins, denom)
}

//verif:model (github.com/cosmos/cosmos-sdk/types.Coins).IsZero
func CoinsIsZero(coins sdk.Coins) bool {
	for _, c := range coins {
		if !c.Amount.IsZero() {
			return false
		}
	}
	return true
}

//verif:model (github.com/cosmos/cosmos-sdk/types.Coins).SafeSub
func CoinsSafeSub(coins sdk.Coins, coinsB ...sdk.Coin) (sdk.Coins, bool) {
	diff := make(sdk.Coins, 0, len(coins)+len(coinsB))
	diff = append(diff, coins...)
	for _, b := range coinsB {
		found := false
		for i := range diff {
			if diff[i].Denom == b.Denom {
				diff[i] = sdk.Coin{Denom: diff[i].Denom, Amount: diff[i].Amount.Sub(b.Amount)}
				found = true
				break
			}
		}
		if !found {
			diff = append(diff, sdk.Coin{Denom: b.Denom, Amount: b.Amount.Neg()})
		}
	}
	out := make(sdk.Coins, 0, len(diff))
	neg := false
	for _, c := range diff {
		if c.Amount.IsZero() {
			continue
		}
		if c.Amount.IsNegative() {
			neg = true
		}
		out = append(out, c)
	}
	return out, neg
}

//verif:model (github.com/cosmos/cosmos-sdk/types.Coins).Add
func CoinsAdd(coins sdk.Coins, coinsB ...sdk.Coin) sdk.Coins {
	sum := make(sdk.Coins, 0, len(coins)+len(coinsB))
	sum = append(sum, coins...)
	for _, b := range coinsB {
		found := false
		for i := range sum {
			if sum[i].Denom == b.Denom {
				sum[i] = sdk.Coin{Denom: sum[i].Denom, Amount: sum[i].Amount.Add(b.Amount)}
				found = true
				break
			}
		}
		if !found {
			sum = append(sum, b)
		}
	}
	out := make(sdk.Coins, 0, len(sum))
	for _, c := range sum {
		if !c.Amount.IsZero() {
			out = append(out, c)
		}
	}
	return out
}

//verif:model github.com/cosmos/cosmos-sdk/types.NewCoin
func NewCoin(denom string, amount sdkmath.Int) sdk.Coin {
	if amount.IsNegative() {
		panic("negative coin amount")
	}
	if err := sdk.ValidateDenom(denom); err != nil {
		panic(err)
	}
	return sdk.Coin{Denom: denom, Amount: amount}
}

//verif:model github.com/cosmos/cosmos-sdk/types.NewCoins
func NewCoins(coins ...sdk.Coin) sdk.Coins {
	out := make(sdk.Coins, 0, len(coins))
	for _, c := range coins {
		if !c.Amount.IsZero() {
			out = append(out, c)
		}
	}
	return out
}

//verif:model (github.com/cosmos/cosmos-sdk/types.Coin).IsZero
func CoinIsZero(c sdk.Coin) bool { return c.Amount.IsZero() }

//verif:model (github.com/cosmos/cosmos-sdk/types.Coin).IsPositive
func CoinIsPositive(c sdk.Coin) bool { return c.Amount.IsPositive() }

//verif:model (github.com/cosmos/cosmos-sdk/types.Coin).IsNegative
func CoinIsNegative(c sdk.Coin) bool { return c.Amount.IsNegative() }

//verif:model (github.com/cosmos/cosmos-sdk/types.Coin).GetDenom
func CoinGetDenom(c sdk.Coin) string { return c.Denom }

//verif:model (github.com/cosmos/cosmos-sdk/types.Coin).String
func CoinString(c sdk.Coin) string { return c.Amount.String() + c.Denom }

//verif:model (github.com/cosmos/cosmos-sdk/types.Coins).String
func CoinsString(c sdk.Coins) string { return "<coins>" }

// ValidateAuthority models sdk.ValidateAuthority with no consensus-params authority override.
//
//verif:model github.com/cosmos/cosmos-sdk/types.ValidateAuthority
func ValidateAuthority(ctx sdk.Context, keeperAuthority, msgAuthority string) error {
	if keeperAuthority != msgAuthority {
		return errApp
	}
	return nil
}

//verif:model (github.com/cosmos/cosmos-sdk/types.Coin).Add
func CoinAdd(c, b sdk.Coin) sdk.Coin {
	if c.Denom != b.Denom {
		panic("invalid coin denoms")
	}
	return sdk.Coin{Denom: c.Denom, Amount: c.Amount.Add(b.Amount)}
}

//verif:model (github.com/cosmos/cosmos-sdk/types.Coin).Sub
func CoinSub(c, b sdk.Coin) sdk.Coin {
	if c.Denom != b.Denom {
		panic("invalid coin denoms")
	}
	res := sdk.Coin{Denom: c.Denom, Amount: c.Amount.Sub(b.Amount)}
	if res.Amount.IsNegative() {
		panic("negative coin amount")
	}
	return res
}

// HexBytesString models cometbft's HexBytes.String: upper-case hex.
//
//verif:model (github.com/cometbft/cometbft/libs/bytes.HexBytes).String
func HexBytesString(bz []byte) string { return strings.ToUpper(hex.EncodeToString(bz)) }

// ValidateHash models cometbft's types.ValidateHash: empty or exactly 32 bytes.
//
//verif:model github.com/cometbft/cometbft/types.ValidateHash
func ValidateHash(h []byte) error {
	if len(h) > 0 && len(h) != 32 {
		return errApp
	}
	return nil
}

// Getters of the cometbft header proto (generated code outside the loaded sources).
//
//verif:model (*github.com/cometbft/cometbft/proto/tendermint/types.Header).GetAppHash
func HeaderGetAppHash(h *cmtproto.Header) []byte {
	if h == nil {
		return nil
	}
	return h.AppHash
}

//verif:model (*github.com/cometbft/cometbft/proto/tendermint/types.Header).GetChainID
func HeaderGetChainID(h *cmtproto.Header) string {
	if h == nil {
		return ""
	}
	return h.ChainID
}

// TMHeader builds a Tendermint header with the given chain id, height, time (whole seconds after 1970) and hashes.
func TMHeader(chainID string, height, sec int64, appHash, nextValsHash []byte) *ibctm.Header {
	verif.Assume(sec >= 0 && sec < 253402300800)
	return &ibctm.Header{SignedHeader: &cmtproto.SignedHeader{Header: &cmtproto.Header{ChainID: chainID, Height: height, Time: time.Unix(sec, 0).UTC(), AppHash: appHash, NextValidatorsHash: nextValsHash}}}
}

// CoinValidate models sdk.Coin.Validate: valid denomination, non-nil and non-negative amount.
//
//verif:model (github.com/cosmos/cosmos-sdk/types.Coin).Validate
func CoinValidate(c sdk.Coin) error {
	if err := sdk.ValidateDenom(c.Denom); err != nil {
		return err
	}
	if c.Amount.IsNil() || c.Amount.IsNegative() {
		return errApp
	}
	return nil
}
