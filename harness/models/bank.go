package models

import (
	"context"
	"crypto/sha256"
	"errors"

	sdkmath "cosmossdk.io/math"

	sdk "github.com/cosmos/cosmos-sdk/types"
	banktypes "github.com/cosmos/cosmos-sdk/x/bank/types"

	"verifharness/verif"
)

// Bank is a model of the cosmos-sdk x/bank keeper behind ibc-go's expected BankKeeper interface, kept in the symbolic
// store "bank": balances bal/<addr>/<denom>, supplies sup/<denom>, and arbitrary (pre-state chosen) blocked-address,
// send-enabled and metadata flags. Balances and supplies are integer cells (verif.StGetInt): absent means zero and stored
// values are positive (the x/bank representation invariant). Vesting / locked coins are not modelled (spendable = balance).
type Bank struct{ Store string }

var (
	ErrInsufficientFunds = errors.New("bank model: insufficient funds")
	ErrBankBlocked       = errors.New("bank model: recipient is blocked")
	ErrSendDisabled      = errors.New("bank model: send disabled for denom")
)

func BalanceKey(addr []byte, denom string) []byte {
	return []byte("bal/" + string(addr) + "/" + denom)
}
func SupplyKey(denom string) []byte   { return []byte("sup/" + denom) }
func blockedKey(addr []byte) []byte   { return []byte("blocked/" + string(addr)) }
func sendEnabledKey(d string) []byte  { return []byte("senddisabled/" + d) }
func metadataKey(denom string) []byte { return []byte("meta/" + denom) }

// ModuleAddress is authtypes.NewModuleAddress: the first 20 bytes of SHA-256(name).
func ModuleAddress(name string) []byte {
	h := sha256.Sum256([]byte(name))
	return h[:20]
}

func (b Bank) get(ctx context.Context, key []byte) sdkmath.Int {
	return verif.StGetInt(ctx, b.Store, key)
}

func (b Bank) set(ctx context.Context, key []byte, v sdkmath.Int) {
	verif.StSetInt(ctx, b.Store, key, v)
}

// Balance / Supply are the observation functions harnesses use.
func (b Bank) Balance(ctx context.Context, addr []byte, denom string) sdkmath.Int {
	return b.get(ctx, BalanceKey(addr, denom))
}
func (b Bank) Supply(ctx context.Context, denom string) sdkmath.Int {
	return b.get(ctx, SupplyKey(denom))
}

// SetBalance / SetSupply write pre-state (harness setup only).
func (b Bank) SetBalance(ctx context.Context, addr []byte, denom string, v sdkmath.Int) {
	b.set(ctx, BalanceKey(addr, denom), v)
}
func (b Bank) SetSupply(ctx context.Context, denom string, v sdkmath.Int) {
	b.set(ctx, SupplyKey(denom), v)
}

func (b Bank) SendCoins(ctx context.Context, from, to sdk.AccAddress, amt sdk.Coins) error {
	verif.LogCall("bank.SendCoins", []byte(from), []byte(to))
	for _, c := range amt {
		if c.Amount.IsNegative() {
			return ErrInsufficientFunds
		}
		bal := b.Balance(ctx, from, c.Denom)
		if bal.LT(c.Amount) {
			return ErrInsufficientFunds
		}
		b.set(ctx, BalanceKey(from, c.Denom), bal.Sub(c.Amount))
		b.set(ctx, BalanceKey(to, c.Denom), b.Balance(ctx, to, c.Denom).Add(c.Amount))
	}
	return nil
}

func (b Bank) MintCoins(ctx context.Context, module string, amt sdk.Coins) error {
	verif.LogCall("bank.MintCoins", module)
	addr := ModuleAddress(module)
	for _, c := range amt {
		b.set(ctx, BalanceKey(addr, c.Denom), b.Balance(ctx, addr, c.Denom).Add(c.Amount))
		b.set(ctx, SupplyKey(c.Denom), b.Supply(ctx, c.Denom).Add(c.Amount))
	}
	return nil
}

func (b Bank) BurnCoins(ctx context.Context, module string, amt sdk.Coins) error {
	verif.LogCall("bank.BurnCoins", module)
	addr := ModuleAddress(module)
	for _, c := range amt {
		bal := b.Balance(ctx, addr, c.Denom)
		if bal.LT(c.Amount) {
			return ErrInsufficientFunds
		}
		sup := b.Supply(ctx, c.Denom)
		// x/bank invariant: the supply of a denomination is at least any single balance of it
		verif.Assume(sup.GTE(bal))
		b.set(ctx, BalanceKey(addr, c.Denom), bal.Sub(c.Amount))
		b.set(ctx, SupplyKey(c.Denom), sup.Sub(c.Amount))
	}
	return nil
}

func (b Bank) SendCoinsFromModuleToAccount(ctx context.Context, module string, to sdk.AccAddress, amt sdk.Coins) error {
	if b.BlockedAddr(to) {
		return ErrBankBlocked
	}
	return b.SendCoins(ctx, ModuleAddress(module), to, amt)
}

func (b Bank) SendCoinsFromAccountToModule(ctx context.Context, from sdk.AccAddress, module string, amt sdk.Coins) error {
	return b.SendCoins(ctx, from, ModuleAddress(module), amt)
}

// blockedCtx is the context the BlockedAddr flag is read from (the SDK method takes no context).
var blockedCtx context.Context

// SetBlockedCtx sets the context BlockedAddr reads its flags from.
func SetBlockedCtx(ctx context.Context) { blockedCtx = ctx }

func (b Bank) BlockedAddr(addr sdk.AccAddress) bool {
	return len(verif.StGet(blockedCtx, b.Store, blockedKey(addr))) != 0
}

func (b Bank) IsSendEnabledCoins(ctx context.Context, coins ...sdk.Coin) error {
	for _, c := range coins {
		if len(verif.StGet(ctx, b.Store, sendEnabledKey(c.Denom))) != 0 {
			return ErrSendDisabled
		}
	}
	return nil
}

func (b Bank) HasDenomMetaData(ctx context.Context, denom string) bool {
	return len(verif.StGet(ctx, b.Store, metadataKey(denom))) != 0
}

func (b Bank) SetDenomMetaData(ctx context.Context, md banktypes.Metadata) {
	verif.StSet(ctx, b.Store, metadataKey(md.Base), []byte{1})
}

func (b Bank) SpendableCoin(ctx context.Context, addr sdk.AccAddress, denom string) sdk.Coin {
	return sdk.Coin{Denom: denom, Amount: b.Balance(ctx, addr, denom)}
}

func (b Bank) GetAllBalances(ctx context.Context, addr sdk.AccAddress) sdk.Coins {
	panic("bank model: GetAllBalances is not modelled")
}

// Auth is a model of the x/auth account keeper: module addresses are the real derivation.
type Auth struct{ X int }

func (Auth) GetModuleAddress(name string) sdk.AccAddress { return ModuleAddress(name) }
func (Auth) GetModuleAccount(ctx context.Context, name string) sdk.ModuleAccountI {
	panic("auth model: GetModuleAccount is not modelled")
}

// AddrCodec is the bech32 account address codec ("cosmos" prefix).
type AddrCodec struct{ X int }

func (AddrCodec) StringToBytes(s string) ([]byte, error) {
	a, err := sdk.AccAddressFromBech32(s)
	if err != nil {
		return nil, err
	}
	return a, nil
}
func (AddrCodec) BytesToString(bz []byte) (string, error) { return sdk.AccAddress(bz).String(), nil }

// MetadataKey is the bank-store key of the metadata flag of denom.
func (Bank) MetadataKey(denom string) []byte { return metadataKey(denom) }
