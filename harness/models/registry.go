package models

import (
	codectypes "github.com/cosmos/cosmos-sdk/codec/types"

	clienttypes "github.com/cosmos/ibc-go/v11/modules/core/02-client/types"
	connectiontypes "github.com/cosmos/ibc-go/v11/modules/core/03-connection/types"
	channeltypes "github.com/cosmos/ibc-go/v11/modules/core/04-channel/types"
	commitmenttypes "github.com/cosmos/ibc-go/v11/modules/core/23-commitment/types"
	solomachine "github.com/cosmos/ibc-go/v11/modules/light-clients/06-solomachine"
	ibctm "github.com/cosmos/ibc-go/v11/modules/light-clients/07-tendermint"

	"verifharness/verif"
)

// ibcRegistry builds the interface registry the native replay's real codec needs (engine: never called).
func ibcRegistry() codectypes.InterfaceRegistry {
	r := codectypes.NewInterfaceRegistry()
	clienttypes.RegisterInterfaces(r)
	connectiontypes.RegisterInterfaces(r)
	channeltypes.RegisterInterfaces(r)
	commitmenttypes.RegisterInterfaces(r)
	ibctm.RegisterInterfaces(r)
	solomachine.RegisterInterfaces(r)
	return r
}

func init() { verif.RegistryBuilder = ibcRegistry }
