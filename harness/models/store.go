// Package models: stand-ins for interfaces at the edge of ibc-go, written as ordinary Go over the
// verif intrinsics so that the engine executes them symbolically and the native build replays them.
package models

import (
	"context"

	corestore "cosmossdk.io/core/store"

	storetypes "github.com/cosmos/cosmos-sdk/store/v2/types"

	"verifharness/verif"
)

// StoreService is a corestore.KVStoreService over the named symbolic store.
type StoreService struct{ Name string }

func (s StoreService) OpenKVStore(ctx context.Context) corestore.KVStore {
	return Store{Ctx: ctx, Name: s.Name}
}

type Store struct {
	Ctx  context.Context
	Name string
}

func (s Store) Get(key []byte) ([]byte, error) { return verif.StGet(s.Ctx, s.Name, key), nil }
func (s Store) Has(key []byte) (bool, error)   { return verif.StHas(s.Ctx, s.Name, key), nil }
func (s Store) Set(key, value []byte) error    { verif.StSet(s.Ctx, s.Name, key, value); return nil }
func (s Store) Delete(key []byte) error        { verif.StDel(s.Ctx, s.Name, key); return nil }
func (s Store) Iterator(start, end []byte) (corestore.Iterator, error) {
	return verif.StIterator(s.Ctx, s.Name, start, end, false), nil
}
func (s Store) ReverseIterator(start, end []byte) (corestore.Iterator, error) {
	return verif.StIterator(s.Ctx, s.Name, start, end, true), nil
}

// KVStoreAdapter models runtime.KVStoreAdapter: same store seen through the storetypes.KVStore interface.
//
//verif:model github.com/cosmos/cosmos-sdk/runtime.KVStoreAdapter
func KVStoreAdapter(s corestore.KVStore) storetypes.KVStore { return Adapter{S: s} }

type Adapter struct{ S corestore.KVStore }

func (a Adapter) Get(key []byte) []byte {
	v, err := a.S.Get(key)
	if err != nil {
		panic(err)
	}
	return v
}

func (a Adapter) Has(key []byte) bool {
	v, err := a.S.Has(key)
	if err != nil {
		panic(err)
	}
	return v
}

func (a Adapter) Set(key, value []byte) {
	if err := a.S.Set(key, value); err != nil {
		panic(err)
	}
}

func (a Adapter) Delete(key []byte) {
	if err := a.S.Delete(key); err != nil {
		panic(err)
	}
}

func (a Adapter) Iterator(start, end []byte) storetypes.Iterator {
	it, err := a.S.Iterator(start, end)
	if err != nil {
		panic(err)
	}
	return it
}

func (a Adapter) ReverseIterator(start, end []byte) storetypes.Iterator {
	it, err := a.S.ReverseIterator(start, end)
	if err != nil {
		panic(err)
	}
	return it
}
func (a Adapter) GetStoreType() storetypes.StoreType { return storetypes.StoreTypeDB }
func (a Adapter) CacheWrap() storetypes.CacheWrap    { panic("CacheWrap not modelled") }

// KVStorePrefixIterator models storetypes.KVStorePrefixIterator: all keys with the prefix, ascending.
//
//verif:model github.com/cosmos/cosmos-sdk/store/v2/types.KVStorePrefixIterator
func KVStorePrefixIterator(kvs storetypes.KVStore, prefix []byte) storetypes.Iterator {
	return kvs.Iterator(prefix, PrefixEndBytes(prefix))
}

// PrefixEndBytes models storetypes.PrefixEndBytes.
//
//verif:model github.com/cosmos/cosmos-sdk/store/v2/types.PrefixEndBytes
func PrefixEndBytes(prefix []byte) []byte {
	if len(prefix) == 0 {
		return nil
	}
	end := make([]byte, len(prefix))
	copy(end, prefix)
	for {
		if end[len(end)-1] != 255 {
			end[len(end)-1]++
			break
		}
		end = end[:len(end)-1]
		if len(end) == 0 {
			end = nil
			break
		}
	}
	return end
}
