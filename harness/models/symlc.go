package models

import (
	sdk "github.com/cosmos/cosmos-sdk/types"

	clienttypes "github.com/cosmos/ibc-go/v11/modules/core/02-client/types"
	commitmenttypesv2 "github.com/cosmos/ibc-go/v11/modules/core/23-commitment/types/v2"
	"github.com/cosmos/ibc-go/v11/modules/core/exported"

	"verifharness/verif"
)

// SymLC is a light client module whose every answer is an arbitrary (symbolic) value and which logs
// exactly what the real core code asked it to verify.
type SymLC struct{ Tag string }

var errLC error = lcError{}

type lcError struct{}

func (lcError) Error() string { return "symbolic light client: rejected" }

func pathKeys(p exported.Path) [][]byte {
	if mp, ok := p.(commitmenttypesv2.MerklePath); ok {
		return mp.KeyPath
	}
	panic("unknown path type")
}

func joinPath(p exported.Path) []byte {
	var out []byte
	for i, k := range pathKeys(p) {
		if i > 0 {
			out = append(out, '|')
		}
		out = append(out, k...)
	}
	return out
}

func (l SymLC) n(s string) string { return l.Tag + s }

func (l SymLC) Initialize(ctx sdk.Context, clientID string, clientState, consensusState []byte) error {
	verif.LogCall(l.n("Initialize"), clientID, clientState, consensusState)
	if verif.Bool(l.n("lc.init.ok")) {
		return nil
	}
	return errLC
}

func (l SymLC) VerifyClientMessage(ctx sdk.Context, clientID string, clientMsg exported.ClientMessage) error {
	verif.LogCall(l.n("VerifyClientMessage"), clientID)
	if verif.Bool(l.n("lc.vcm.ok")) {
		return nil
	}
	return errLC
}

func (l SymLC) CheckForMisbehaviour(ctx sdk.Context, clientID string, clientMsg exported.ClientMessage) bool {
	verif.LogCall(l.n("CheckForMisbehaviour"), clientID)
	return verif.Bool(l.n("lc.misbehaviour"))
}

func (l SymLC) UpdateStateOnMisbehaviour(ctx sdk.Context, clientID string, clientMsg exported.ClientMessage) {
	verif.LogCall(l.n("UpdateStateOnMisbehaviour"), clientID)
}

func (l SymLC) UpdateState(ctx sdk.Context, clientID string, clientMsg exported.ClientMessage) []exported.Height {
	verif.LogCall(l.n("UpdateState"), clientID)
	return []exported.Height{clienttypes.NewHeight(verif.Uint64(l.n("lc.upd.rev")), verif.Uint64(l.n("lc.upd.h")))}
}

func (l SymLC) VerifyMembership(ctx sdk.Context, clientID string, height exported.Height, delayTimePeriod, delayBlockPeriod uint64, proof []byte, path exported.Path, value []byte) error {
	verif.LogCall(l.n("VerifyMembership"), clientID, height.GetRevisionNumber(), height.GetRevisionHeight(), delayTimePeriod, delayBlockPeriod, proof, joinPath(path), value)
	if verif.Bool(l.n("lc.member.ok")) {
		return nil
	}
	return errLC
}

func (l SymLC) VerifyNonMembership(ctx sdk.Context, clientID string, height exported.Height, delayTimePeriod, delayBlockPeriod uint64, proof []byte, path exported.Path) error {
	verif.LogCall(l.n("VerifyNonMembership"), clientID, height.GetRevisionNumber(), height.GetRevisionHeight(), delayTimePeriod, delayBlockPeriod, proof, joinPath(path))
	if verif.Bool(l.n("lc.nonmember.ok")) {
		return nil
	}
	return errLC
}

func (l SymLC) Status(ctx sdk.Context, clientID string) exported.Status {
	st := verif.String(l.n("lc.status"))
	verif.LogCall(l.n("Status"), clientID, st)
	return exported.Status(st)
}

func (l SymLC) LatestHeight(ctx sdk.Context, clientID string) exported.Height {
	rev, h := verif.Uint64(l.n("lc.latest.rev")), verif.Uint64(l.n("lc.latest.h"))
	verif.LogCall(l.n("LatestHeight"), clientID, rev, h)
	return clienttypes.NewHeight(rev, h)
}

func (l SymLC) TimestampAtHeight(ctx sdk.Context, clientID string, height exported.Height) (uint64, error) {
	ok, ts := verif.Bool(l.n("lc.ts.ok")), verif.Uint64(l.n("lc.ts"))
	verif.LogCall(l.n("TimestampAtHeight"), clientID, height.GetRevisionNumber(), height.GetRevisionHeight(), ts, ok)
	if !ok {
		return 0, errLC
	}
	return ts, nil
}

func (l SymLC) RecoverClient(ctx sdk.Context, clientID, substituteClientID string) error {
	verif.LogCall(l.n("RecoverClient"), clientID, substituteClientID)
	if verif.Bool(l.n("lc.recover.ok")) {
		return nil
	}
	return errLC
}

func (l SymLC) VerifyUpgradeAndUpdateState(ctx sdk.Context, clientID string, newClient, newConsState, upgradeClientProof, upgradeConsensusStateProof []byte) error {
	verif.LogCall(l.n("VerifyUpgradeAndUpdateState"), clientID, newClient, newConsState)
	if verif.Bool(l.n("lc.upgrade.ok")) {
		return nil
	}
	return errLC
}

var _ exported.LightClientModule = SymLC{}
