package models

import (
	sdk "github.com/cosmos/cosmos-sdk/types"

	channeltypes "github.com/cosmos/ibc-go/v11/modules/core/04-channel/types"
	channeltypesv2 "github.com/cosmos/ibc-go/v11/modules/core/04-channel/v2/types"
	porttypes "github.com/cosmos/ibc-go/v11/modules/core/05-port/types"
	"github.com/cosmos/ibc-go/v11/modules/core/exported"

	"verifharness/verif"
)

// SymAck is an acknowledgement with arbitrary success flag and bytes.
type SymAck struct {
	Ok bool
	Bz []byte
}

func (a SymAck) Success() bool           { return a.Ok }
func (a SymAck) Acknowledgement() []byte { return a.Bz }

// SymApp is an arbitrary IBC v1 application: every callback logs its invocation, performs up to
// Writes symbolic writes to its own store through the context it was given, and returns a symbolic result.
type SymApp struct {
	Writes int
	// MayPanic lets callbacks panic (a modelled outcome).
	MayPanic bool
}

var errApp error = appError{}

type appError struct{}

func (appError) Error() string { return "symbolic application: error" }

func (a *SymApp) effects(ctx sdk.Context, tag string) {
	for i := 0; i < a.Writes; i++ {
		if verif.Bool(tag + ".write") {
			k, v := verif.Bytes(tag+".wkey"), verif.Bytes(tag+".wval")
			verif.Assume(len(k) > 0 && len(v) > 0)
			verif.LogCall(tag+".write", k, v)
			verif.StSet(ctx, "app", k, v)
		}
	}
	if a.MayPanic && verif.Bool(tag+".panic") {
		panic("symbolic application panic")
	}
}

func (a *SymApp) result(tag string) error {
	if verif.Bool(tag + ".ok") {
		return nil
	}
	return errApp
}

func (a *SymApp) OnChanOpenInit(ctx sdk.Context, order channeltypes.Order, connectionHops []string, portID, channelID string, counterparty channeltypes.Counterparty, version string) (string, error) {
	verif.LogCall("OnChanOpenInit", portID, channelID, version)
	a.effects(ctx, "app.openinit")
	return verif.String("app.openinit.version"), a.result("app.openinit")
}

func (a *SymApp) OnChanOpenTry(ctx sdk.Context, order channeltypes.Order, connectionHops []string, portID, channelID string, counterparty channeltypes.Counterparty, counterpartyVersion string) (string, error) {
	verif.LogCall("OnChanOpenTry", portID, channelID, counterpartyVersion)
	a.effects(ctx, "app.opentry")
	return verif.String("app.opentry.version"), a.result("app.opentry")
}

func (a *SymApp) OnChanOpenAck(ctx sdk.Context, portID, channelID, counterpartyChannelID, counterpartyVersion string) error {
	verif.LogCall("OnChanOpenAck", portID, channelID, counterpartyChannelID, counterpartyVersion)
	a.effects(ctx, "app.openack")
	return a.result("app.openack")
}

func (a *SymApp) OnChanOpenConfirm(ctx sdk.Context, portID, channelID string) error {
	verif.LogCall("OnChanOpenConfirm", portID, channelID)
	a.effects(ctx, "app.openconfirm")
	return a.result("app.openconfirm")
}

func (a *SymApp) OnChanCloseInit(ctx sdk.Context, portID, channelID string) error {
	verif.LogCall("OnChanCloseInit", portID, channelID)
	a.effects(ctx, "app.closeinit")
	return a.result("app.closeinit")
}

func (a *SymApp) OnChanCloseConfirm(ctx sdk.Context, portID, channelID string) error {
	verif.LogCall("OnChanCloseConfirm", portID, channelID)
	a.effects(ctx, "app.closeconfirm")
	return a.result("app.closeconfirm")
}

func (a *SymApp) OnRecvPacket(ctx sdk.Context, channelVersion string, packet channeltypes.Packet, relayer sdk.AccAddress) exported.Acknowledgement {
	verif.LogCall("OnRecvPacket", packet.DestinationPort, packet.DestinationChannel, packet.Sequence, packet.Data)
	a.effects(ctx, "app.recv")
	async, ok, bz := verif.Bool("app.recv.async"), verif.Bool("app.recv.success"), verif.Bytes("app.recv.ack")
	if async {
		verif.LogCall("OnRecvPacket.result", uint64(2), bz)
		return nil
	}
	if ok {
		verif.LogCall("OnRecvPacket.result", uint64(0), bz)
	} else {
		verif.LogCall("OnRecvPacket.result", uint64(1), bz)
	}
	return SymAck{Ok: ok, Bz: bz}
}

func (a *SymApp) OnAcknowledgementPacket(ctx sdk.Context, channelVersion string, packet channeltypes.Packet, acknowledgement []byte, relayer sdk.AccAddress) error {
	verif.LogCall("OnAcknowledgementPacket", packet.SourcePort, packet.SourceChannel, packet.Sequence, acknowledgement)
	a.effects(ctx, "app.ack")
	return a.result("app.ack")
}

func (a *SymApp) OnTimeoutPacket(ctx sdk.Context, channelVersion string, packet channeltypes.Packet, relayer sdk.AccAddress) error {
	verif.LogCall("OnTimeoutPacket", packet.SourcePort, packet.SourceChannel, packet.Sequence)
	a.effects(ctx, "app.timeout")
	return a.result("app.timeout")
}

func (a *SymApp) SetICS4Wrapper(wrapper porttypes.ICS4Wrapper) {}

var _ porttypes.IBCModule = (*SymApp)(nil)

// SymAppV2 is an arbitrary IBC v2 application.
type SymAppV2 struct {
	Writes int
	// RecvCalls counts OnRecvPacket invocations natively too (the ghost log does the same symbolically).
}

func (a *SymAppV2) effects(ctx sdk.Context, tag string) {
	for i := 0; i < a.Writes; i++ {
		if verif.Bool(tag + ".write") {
			k, v := verif.Bytes(tag+".wkey"), verif.Bytes(tag+".wval")
			verif.Assume(len(k) > 0 && len(v) > 0)
			verif.LogCall(tag+".write", k, v)
			verif.StSet(ctx, "app", k, v)
		}
	}
}

func (a *SymAppV2) OnSendPacket(ctx sdk.Context, sourceClient, destinationClient string, sequence uint64, payload channeltypesv2.Payload, signer sdk.AccAddress) error {
	verif.LogCall("V2.OnSendPacket", sourceClient, destinationClient, sequence, payload.Value)
	a.effects(ctx, "appv2.send")
	if verif.Bool("appv2.send.ok") {
		return nil
	}
	return errApp
}

func (a *SymAppV2) OnRecvPacket(ctx sdk.Context, sourceClient, destinationClient string, sequence uint64, payload channeltypesv2.Payload, relayer sdk.AccAddress) channeltypesv2.RecvPacketResult {
	st := verif.Choice("appv2.recv.status", 3)
	ack := verif.Bytes("appv2.recv.ack")
	verif.LogCall("V2.OnRecvPacket", sourceClient, destinationClient, sequence, payload.Value, uint64(st), ack)
	a.effects(ctx, "appv2.recv")
	switch st {
	case 0:
		return channeltypesv2.RecvPacketResult{Status: channeltypesv2.PacketStatus_Success, Acknowledgement: ack}
	case 1:
		return channeltypesv2.RecvPacketResult{Status: channeltypesv2.PacketStatus_Failure}
	}
	return channeltypesv2.RecvPacketResult{Status: channeltypesv2.PacketStatus_Async}
}

func (a *SymAppV2) OnTimeoutPacket(ctx sdk.Context, sourceClient, destinationClient string, sequence uint64, payload channeltypesv2.Payload, relayer sdk.AccAddress) error {
	verif.LogCall("V2.OnTimeoutPacket", sourceClient, destinationClient, sequence, payload.Value)
	a.effects(ctx, "appv2.timeout")
	if verif.Bool("appv2.timeout.ok") {
		return nil
	}
	return errApp
}

func (a *SymAppV2) OnAcknowledgementPacket(ctx sdk.Context, sourceClient, destinationClient string, sequence uint64, acknowledgement []byte, payload channeltypesv2.Payload, relayer sdk.AccAddress) error {
	verif.LogCall("V2.OnAcknowledgementPacket", sourceClient, destinationClient, sequence, acknowledgement, payload.Value)
	a.effects(ctx, "appv2.ack")
	if verif.Bool("appv2.ack.ok") {
		return nil
	}
	return errApp
}
