package models

import (
	"math"

	storetypes "github.com/cosmos/cosmos-sdk/store/v2/types"
)

// GasMeter is a transcription of the SDK's basicGasMeter (store/v2/types/gas.go): consumed gas accumulates, consuming
// past the limit panics with ErrorOutOfGas after recording the consumption.
type GasMeter struct {
	limit, consumed uint64
}

//verif:model github.com/cosmos/cosmos-sdk/store/v2/types.NewGasMeter
func NewGasMeter(limit storetypes.Gas) storetypes.GasMeter { return &GasMeter{limit: limit} }

func (g *GasMeter) GasConsumed() storetypes.Gas { return g.consumed }
func (g *GasMeter) Limit() storetypes.Gas       { return g.limit }
func (g *GasMeter) IsPastLimit() bool           { return g.consumed > g.limit }
func (g *GasMeter) IsOutOfGas() bool            { return g.consumed >= g.limit }
func (g *GasMeter) String() string              { return "GasMeter" }

func (g *GasMeter) GasRemaining() storetypes.Gas {
	if g.IsPastLimit() {
		return 0
	}
	return g.limit - g.consumed
}

func (g *GasMeter) GasConsumedToLimit() storetypes.Gas {
	if g.IsPastLimit() {
		return g.limit
	}
	return g.consumed
}

func (g *GasMeter) ConsumeGas(amount storetypes.Gas, descriptor string) {
	if math.MaxUint64-g.consumed < amount {
		g.consumed = math.MaxUint64
		panic(storetypes.ErrorGasOverflow{Descriptor: descriptor})
	}
	g.consumed += amount
	if g.consumed > g.limit {
		panic(storetypes.ErrorOutOfGas{Descriptor: descriptor})
	}
}

func (g *GasMeter) RefundGas(amount storetypes.Gas, descriptor string) {
	if g.consumed < amount {
		panic(storetypes.ErrorNegativeGasConsumed{Descriptor: descriptor})
	}
	g.consumed -= amount
}
