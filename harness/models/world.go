package models

import (
	"context"

	upgradetypes "github.com/cosmos/cosmos-sdk/x/upgrade/types"

	sdk "github.com/cosmos/cosmos-sdk/types"

	clienttypes "github.com/cosmos/ibc-go/v11/modules/core/02-client/types"
	clientv2types "github.com/cosmos/ibc-go/v11/modules/core/02-client/v2/types"
	connectiontypes "github.com/cosmos/ibc-go/v11/modules/core/03-connection/types"
	channeltypes "github.com/cosmos/ibc-go/v11/modules/core/04-channel/types"
	channeltypesv2 "github.com/cosmos/ibc-go/v11/modules/core/04-channel/v2/types"
	porttypes "github.com/cosmos/ibc-go/v11/modules/core/05-port/types"
	commitmenttypes "github.com/cosmos/ibc-go/v11/modules/core/23-commitment/types"
	"github.com/cosmos/ibc-go/v11/modules/core/api"
	ibckeeper "github.com/cosmos/ibc-go/v11/modules/core/keeper"

	"verifharness/verif"
)

// UpgradeKeeper is an inert upgrade keeper (client upgrades are the subject of C25 only).
type UpgradeKeeper struct{ X int }

func (UpgradeKeeper) GetUpgradePlan(ctx context.Context) (upgradetypes.Plan, error) {
	return upgradetypes.Plan{}, errApp
}
func (UpgradeKeeper) GetUpgradedClient(ctx context.Context, height int64) ([]byte, error) {
	return nil, errApp
}
func (UpgradeKeeper) SetUpgradedClient(ctx context.Context, planHeight int64, bz []byte) error {
	return nil
}
func (UpgradeKeeper) GetUpgradedConsensusState(ctx context.Context, lastHeight int64) ([]byte, error) {
	return nil, errApp
}
func (UpgradeKeeper) SetUpgradedConsensusState(ctx context.Context, planHeight int64, bz []byte) error {
	return nil
}
func (UpgradeKeeper) ScheduleUpgrade(ctx context.Context, plan upgradetypes.Plan) error { return nil }

const (
	// ClientType is the client type under which the symbolic light client is routed.
	ClientType = "07-tendermint"
	// AppPort is the port the symbolic v1 application is bound to.
	AppPort   = "symapp"
	Authority = "cosmos1qgpqyqszqgpqyqszqgpqyqszqgpqyqszrh8mx2"
	Relayer   = "cosmos1qyqszqgpqyqszqgpqyqszqgpqyqszqgpjnp7du"
)

// Accounts is a pool of valid bech32 account addresses (bytes 0x01.., 0x02.., ... x20); a symbolic signer is a
// solver-chosen member of the pool (bech32 checksums are outside the solvers' reach, so signers are not free strings).
var Accounts = []string{Relayer, Authority, "cosmos1qvpsxqcrqvpsxqcrqvpsxqcrqvpsxqcrz8x6vt", "cosmos1qszqgpqyqszqgpqyqszqgpqyqszqgpqyzhplth", "cosmos1q5zs2pg9q5zs2pg9q5zs2pg9q5zs2pg9r8q7pk"}

// SymAccount picks an arbitrary account from the pool.
func SymAccount(name string) string { return Accounts[verif.Choice(name, len(Accounts))] }

// SymAccountN picks among the first n accounts of the pool.
func SymAccountN(name string, n int) string { return Accounts[verif.Choice(name, n)] }

// World is one chain: a context over arbitrary stores and the real IBC core keeper wired to symbolic
// light client and application modules.
type World struct {
	Ctx   sdk.Context
	IBC   *ibckeeper.Keeper
	LC    SymLC
	App   *SymApp
	AppV2 *SymAppV2
}

// NewWorld builds the keeper through the real constructors.
func NewWorld() *World {
	verif.RegisterType(&channeltypes.Channel{})
	verif.RegisterType(&connectiontypes.ConnectionEnd{})
	verif.RegisterType(&clienttypes.Params{})
	verif.RegisterType(&connectiontypes.Params{})
	verif.RegisterType(&connectiontypes.ClientPaths{})
	verif.RegisterType(&clientv2types.CounterpartyInfo{})
	verif.RegisterType(&clientv2types.Config{})
	verif.RegisterType(&channeltypesv2.Packet{})
	w := &World{Ctx: verif.NewCtx(), LC: SymLC{}, App: &SymApp{}, AppV2: &SymAppV2{}}
	w.IBC = ibckeeper.NewKeeper(Codec{}, StoreService{Name: "ibc"}, UpgradeKeeper{X: 1}, Authority)
	w.IBC.ClientKeeper.AddRoute(ClientType, w.LC)
	r := porttypes.NewRouter()
	r.AddRoute(AppPort, w.App)
	w.IBC.SetRouter(r)
	r2 := api.NewRouter()
	r2.AddRoute(AppPort, w.AppV2)
	w.IBC.SetRouterV2(r2)
	return w
}

// AssumeClientUsable constrains the pre-state so that the light client routing succeeds for clientID:
// the allow-list is the wildcard (what genesis sets by default).
func (w *World) AssumeClientParams() {
	p := w.IBC.ClientKeeper.GetParams(w.Ctx)
	verif.Assume(len(p.AllowedClients) == 1 && p.AllowedClients[0] == clienttypes.AllowAllClients)
}

// ClientID is the (concrete) identifier of the client routed to the symbolic light client.
const ClientID = ClientType + "-0"

// SetParams writes the module parameters the way genesis does: wildcard client allow-list and an
// arbitrary expected block time.
func (w *World) SetParams() {
	w.IBC.ClientKeeper.SetParams(w.Ctx, clienttypes.NewParams(clienttypes.AllowAllClients))
	w.IBC.ConnectionKeeper.SetParams(w.Ctx, connectiontypes.NewParams(verif.Uint64("maxExpectedTimePerBlock")))
}

// SymConnection stores, under a symbolic connection id, a connection end with arbitrary fields whose client is ClientID.
func (w *World) SymConnection(tag string) (string, connectiontypes.ConnectionEnd) {
	id := verif.String(tag + ".id")
	c := connectiontypes.ConnectionEnd{
		ClientId: ClientID,
		Versions: []*connectiontypes.Version{{Identifier: verif.String(tag + ".version"), Features: []string{verif.String(tag + ".feature")}}},
		State:    connectiontypes.State(verif.Int32(tag + ".state")),
		Counterparty: connectiontypes.Counterparty{ClientId: verif.String(tag + ".cpClient"), ConnectionId: verif.String(tag + ".cpConn"),
			Prefix: commitmenttypes.NewMerklePrefix(verif.Bytes(tag + ".cpPrefix"))},
		DelayPeriod: verif.Uint64(tag + ".delay"),
	}
	w.IBC.ConnectionKeeper.SetConnection(w.Ctx, id, c)
	return id, c
}

// SymChannel stores a channel end with arbitrary fields (single hop over connID) at (port, channel).
func (w *World) SymChannel(tag, port, channel, connID string) channeltypes.Channel {
	ch := channeltypes.Channel{
		State:          channeltypes.State(verif.Int32(tag + ".state")),
		Ordering:       channeltypes.Order(verif.Int32(tag + ".ordering")),
		Counterparty:   channeltypes.Counterparty{PortId: verif.String(tag + ".cpPort"), ChannelId: verif.String(tag + ".cpChan")},
		ConnectionHops: []string{connID},
		Version:        verif.String(tag + ".version"),
	}
	w.IBC.ChannelKeeper.SetChannel(w.Ctx, port, channel, ch)
	return ch
}

// SymCounterparty registers an arbitrary v2 counterparty (symbolic client id and one-element-plus-prefix merkle prefix) for clientID.
func (w *World) SymCounterparty(tag, clientID string) clientv2types.CounterpartyInfo {
	cp := clientv2types.CounterpartyInfo{
		MerklePrefix: [][]byte{verif.Bytes(tag + ".prefix0"), verif.Bytes(tag + ".prefix1")},
		ClientId:     verif.String(tag + ".client"),
	}
	w.IBC.ClientV2Keeper.SetClientCounterparty(w.Ctx, clientID, cp)
	return cp
}
