package models

import (
	codectypes "github.com/cosmos/cosmos-sdk/codec/types"
	"github.com/cosmos/gogoproto/proto"

	"verifharness/verif"
)

// Codec is a codec.BinaryCodec whose wire format is an uninterpreted, invertible encoding per message type.
type Codec struct{}

func (Codec) Marshal(o proto.Message) ([]byte, error) { return verif.Encode(o), nil }
func (Codec) MustMarshal(o proto.Message) []byte      { return verif.Encode(o) }
func (Codec) MarshalLengthPrefixed(o proto.Message) ([]byte, error) {
	return verif.Encode(o), nil
}
func (Codec) MustMarshalLengthPrefixed(o proto.Message) []byte { return verif.Encode(o) }
func (Codec) Unmarshal(bz []byte, ptr proto.Message) error {
	if !verif.DecodeOK(bz, ptr) {
		return ErrDecode
	}
	verif.Decode(bz, ptr)
	return nil
}
func (Codec) MustUnmarshal(bz []byte, ptr proto.Message) {
	if !verif.DecodeOK(bz, ptr) {
		panic(ErrDecode)
	}
	verif.Decode(bz, ptr)
}
func (c Codec) UnmarshalLengthPrefixed(bz []byte, ptr proto.Message) error {
	return c.Unmarshal(bz, ptr)
}
func (c Codec) MustUnmarshalLengthPrefixed(bz []byte, ptr proto.Message) { c.MustUnmarshal(bz, ptr) }
func (Codec) MarshalInterface(i proto.Message) ([]byte, error) {
	return verif.EncodeIface(i, ""), nil
}
func (Codec) UnmarshalInterface(bz []byte, ptr any) error {
	if !verif.DecodeIfaceOK(bz, ptr) {
		return ErrDecode
	}
	verif.DecodeIface(bz, ptr)
	return nil
}
func (Codec) UnpackAny(any *codectypes.Any, iface any) error { return verif.UnpackAny(any, iface) }

type decodeError struct{}

func (decodeError) Error() string { return "decode error" }

// ErrDecode is returned when the stored bytes are not a valid encoding of the requested type.
var ErrDecode error = decodeError{}
