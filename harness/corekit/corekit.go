// Package corekit: shared set-up for the core packet-lifecycle harnesses (C01–C14): one chain whose IBC store is
// arbitrary except for module params, one connection end and one channel end written through the real setters
// with arbitrary field values.
package corekit

import (
	clienttypes "github.com/cosmos/ibc-go/v11/modules/core/02-client/types"
	clientv2types "github.com/cosmos/ibc-go/v11/modules/core/02-client/v2/types"
	conntypes "github.com/cosmos/ibc-go/v11/modules/core/03-connection/types"
	chantypes "github.com/cosmos/ibc-go/v11/modules/core/04-channel/types"
	v2 "github.com/cosmos/ibc-go/v11/modules/core/04-channel/v2/types"

	"verifharness/models"
	"verifharness/verif"
)

func Height(n string) clienttypes.Height {
	return clienttypes.NewHeight(verif.Uint64(n+".rev"), verif.Uint64(n+".h"))
}

// V1 is the v1 scenario: world, packet, the local channel end and its connection.
type V1 struct {
	W      *models.World
	P      chantypes.Packet
	Ch     chantypes.Channel
	Conn   conntypes.ConnectionEnd
	ConnID string
}

// RecvSide: the local chain is the packet's destination (destination port = the symbolic app's port).
func RecvSide() V1 {
	w := models.NewWorld()
	w.SetParams()
	p := chantypes.Packet{
		Sequence: verif.Uint64("seq"), SourcePort: verif.String("srcPort"), SourceChannel: verif.String("srcChan"),
		DestinationPort: models.AppPort, DestinationChannel: verif.String("dstChan"),
		Data: verif.Bytes("data"), TimeoutHeight: Height("timeoutHeight"), TimeoutTimestamp: verif.Uint64("timeoutTs"),
	}
	connID, conn := w.SymConnection("conn")
	ch := w.SymChannel("chan", p.DestinationPort, p.DestinationChannel, connID)
	return V1{W: w, P: p, Ch: ch, Conn: conn, ConnID: connID}
}

// SendSide: the local chain is the packet's source (source port = the symbolic app's port).
func SendSide() V1 {
	w := models.NewWorld()
	w.SetParams()
	p := chantypes.Packet{
		Sequence: verif.Uint64("seq"), SourcePort: models.AppPort, SourceChannel: verif.String("srcChan"),
		DestinationPort: verif.String("dstPort"), DestinationChannel: verif.String("dstChan"),
		Data: verif.Bytes("data"), TimeoutHeight: Height("timeoutHeight"), TimeoutTimestamp: verif.Uint64("timeoutTs"),
	}
	connID, conn := w.SymConnection("conn")
	ch := w.SymChannel("chan", p.SourcePort, p.SourceChannel, connID)
	return V1{W: w, P: p, Ch: ch, Conn: conn, ConnID: connID}
}

func (s V1) RecvMsg() *chantypes.MsgRecvPacket {
	return &chantypes.MsgRecvPacket{Packet: s.P, ProofCommitment: verif.Bytes("proof"), ProofHeight: Height("proofHeight"), Signer: models.Relayer}
}

func (s V1) AckMsg() *chantypes.MsgAcknowledgement {
	return &chantypes.MsgAcknowledgement{Packet: s.P, Acknowledgement: verif.Bytes("ack"), ProofAcked: verif.Bytes("proof"), ProofHeight: Height("proofHeight"), Signer: models.Relayer}
}

func (s V1) TimeoutMsg() *chantypes.MsgTimeout {
	return &chantypes.MsgTimeout{Packet: s.P, ProofUnreceived: verif.Bytes("proof"), ProofHeight: Height("proofHeight"), NextSequenceRecv: verif.Uint64("nextSeqRecv"), Signer: models.Relayer}
}

// V2 is the v2 scenario. Local is the identifier under which the local chain stores this packet flow's state:
// the routed client id itself or a channel alias resolving to it.
type V2 struct {
	W        *models.World
	P        v2.Packet
	Local    string
	ViaAlias bool
	CP       clientv2Counterparty
}

type clientv2Counterparty struct {
	ClientID string
	Prefix   [][]byte
}

func v2Local(w *models.World) (string, bool, clientv2Counterparty) {
	local := models.ClientID
	viaAlias := verif.Choice("viaAlias", 2) == 1
	if viaAlias {
		local = verif.String("alias")
		verif.Assume(local != models.ClientID && local != "")
	}
	cp := w.SymCounterparty("cp", local)
	// relayer allow-lists are the subject of C46: here the client config is the default (no allow-list)
	w.IBC.ClientV2Keeper.SetConfig(w.Ctx, local, clientv2types.NewConfig())
	if viaAlias {
		w.IBC.ChannelKeeperV2.SetClientForAlias(w.Ctx, local, models.ClientID)
	} else {
		// representation invariant: aliases exist only for channel identifiers, never for a light-client identifier
		_, isAlias := w.IBC.ChannelKeeperV2.GetClientForAlias(w.Ctx, local)
		verif.Assume(!isAlias)
	}
	return local, viaAlias, clientv2Counterparty{ClientID: cp.ClientId, Prefix: cp.MerklePrefix}
}

func payloads(lo, hi int, srcPort, dstPort string) []v2.Payload {
	n := verif.Len("payloads", lo, hi)
	var out []v2.Payload
	for i := 0; i < n; i++ {
		t := "pl" + string(rune('0'+i))
		pl := v2.Payload{SourcePort: srcPort, DestinationPort: dstPort, Version: verif.String(t + ".version"), Encoding: verif.String(t + ".encoding"), Value: verif.Bytes(t + ".value")}
		if srcPort == "" {
			pl.SourcePort = verif.String(t + ".srcPort")
		}
		if dstPort == "" {
			pl.DestinationPort = verif.String(t + ".dstPort")
		}
		out = append(out, pl)
	}
	return out
}

// RecvSideV2: local chain is the destination of a packet with lo..hi payloads addressed to the symbolic app.
func RecvSideV2(lo, hi int) V2 {
	w := models.NewWorld()
	w.SetParams()
	local, alias, cp := v2Local(w)
	p := v2.Packet{Sequence: verif.Uint64("seq"), SourceClient: verif.String("srcClient"), DestinationClient: local, TimeoutTimestamp: verif.Uint64("timeout")}
	p.Payloads = payloads(lo, hi, "", models.AppPort)
	return V2{W: w, P: p, Local: local, ViaAlias: alias, CP: cp}
}

// SendSideV2: local chain is the source.
func SendSideV2(lo, hi int) V2 {
	w := models.NewWorld()
	w.SetParams()
	local, alias, cp := v2Local(w)
	p := v2.Packet{Sequence: verif.Uint64("seq"), SourceClient: local, DestinationClient: verif.String("dstClient"), TimeoutTimestamp: verif.Uint64("timeout")}
	p.Payloads = payloads(lo, hi, models.AppPort, "")
	return V2{W: w, P: p, Local: local, ViaAlias: alias, CP: cp}
}

func (s V2) RecvMsg() *v2.MsgRecvPacket {
	return &v2.MsgRecvPacket{Packet: s.P, ProofCommitment: verif.Bytes("proof"), ProofHeight: Height("proofHeight"), Signer: models.Relayer}
}

func (s V2) TimeoutMsg() *v2.MsgTimeout {
	return &v2.MsgTimeout{Packet: s.P, ProofUnreceived: verif.Bytes("proof"), ProofHeight: Height("proofHeight"), Signer: models.Relayer}
}

// AckMsg with 1..maxAcks app acknowledgements.
func (s V2) AckMsg(maxAcks int) *v2.MsgAcknowledgement {
	ack := v2.Acknowledgement{}
	na := verif.Len("acks", 1, maxAcks)
	for i := 0; i < na; i++ {
		ack.AppAcknowledgements = append(ack.AppAcknowledgements, verif.Bytes("ack"+string(rune('0'+i))))
	}
	return &v2.MsgAcknowledgement{Packet: s.P, Acknowledgement: ack, ProofAcked: verif.Bytes("proof"), ProofHeight: Height("proofHeight"), Signer: models.Relayer}
}

func HeightOf(rev, h uint64) clienttypes.Height { return clienttypes.NewHeight(rev, h) }
