// Package c42: rate limiting charges the denomination ICS-20 moves. The limiter's two denomination parsers are compared
// with the ICS-20 rule (parse the path on the wire first, then strip the source hop or prepend the destination hop;
// on send, the coin that is escrowed or burned) on the same packet.
package c42

import (
	rlkeeper "github.com/cosmos/ibc-go/v11/modules/apps/rate-limiting/keeper"
	transfertypes "github.com/cosmos/ibc-go/v11/modules/apps/transfer/types"
	clienttypes "github.com/cosmos/ibc-go/v11/modules/core/02-client/types"
	chantypes "github.com/cosmos/ibc-go/v11/modules/core/04-channel/types"

	"verifharness/verif"
)

// base is a base denomination from a fixed pool of shapes with arbitrary numbers: a plain name, name/channel-<n>
// (an identifier-like second segment), name/<type>-<n> (client-identifier-like), name/name.
func base(tag string) (string, []string) {
	n := verif.DecU64(verif.Uint64(tag + ".n"))
	switch verif.Choice(tag+".shape", 5) {
	case 0:
		return "uatom", []string{"uatom"}
	case 1:
		return "a/channel-" + n, []string{"a", "channel-" + n}
	case 2:
		return "transfer/channel-" + n, []string{"transfer", "channel-" + n}
	case 3:
		return "gamm/pool-" + n, []string{"gamm", "pool-" + n}
	}
	return "gamm/pool", []string{"gamm", "pool"}
}

func looksLikeHop(seg string) bool {
	return chantypes.IsValidChannelID(seg) || clienttypes.IsValidClientID(seg)
}

func channel(tag string) string { return "channel-" + verif.DecU64(verif.Uint64(tag)) }

// ics20Recv is the ICS-20 receive rule (transfer keeper OnRecvPacket): parse, then strip the source hop or prepend the destination hop.
func ics20Recv(path, srcPort, srcChan, dstPort, dstChan string) string {
	d := transfertypes.ExtractDenomFromPath(path)
	if d.HasPrefix(srcPort, srcChan) {
		d.Trace = d.Trace[1:]
	} else {
		d.Trace = append([]transfertypes.Hop{transfertypes.NewHop(dstPort, dstChan)}, d.Trace...)
	}
	return d.IBCDenom()
}

func recv(unambiguous bool) {
	verif.LightDecimals(true)
	verif.CollisionFree(true)
	b, segs := base("base")
	if unambiguous {
		for i := 1; i < len(segs); i += 2 {
			verif.Assume(!looksLikeHop(segs[i]))
		}
	}
	p := chantypes.Packet{SourcePort: "transfer", SourceChannel: channel("srcChannel"), DestinationPort: "transfer", DestinationChannel: channel("dstChannel")}
	path := b
	switch verif.Choice("wire", 3) {
	case 1: // a voucher of ours coming home
		path = p.SourcePort + "/" + p.SourceChannel + "/" + b
	case 2: // a voucher of a third chain
		path = "transfer/" + channel("otherChannel") + "/" + b
	}
	got := rlkeeper.ParseDenomFromRecvPacket(p, transfertypes.FungibleTokenPacketData{Denom: path})
	want := ics20Recv(path, p.SourcePort, p.SourceChannel, p.DestinationPort, p.DestinationChannel)
	verif.Reach("parsed")
	verif.Assert(got == want, "the limiter charges a receive to the denomination ICS-20 mints or releases")
}

// HarnessRecvDenom: any base of the bounded family, native / returning / third-party voucher on the wire.
func HarnessRecvDenom() { recv(false) }

// HarnessRecvDenomUnambiguous: the same for bases whose second segment does not look like a channel or client identifier.
func HarnessRecvDenomUnambiguous() { recv(true) }

func send(unambiguous bool) {
	verif.LightDecimals(true)
	verif.CollisionFree(true)
	b, segs := base("base")
	if unambiguous {
		for i := 1; i < len(segs); i += 2 {
			verif.Assume(!looksLikeHop(segs[i]))
		}
	}
	d := transfertypes.Denom{Base: b}
	if verif.Bool("voucher") {
		d.Trace = []transfertypes.Hop{transfertypes.NewHop("transfer", channel("hopChannel"))}
	}
	// what ICS-20 puts on the wire and what it escrows or burns (SendTransfer: token.ToCoin)
	got := rlkeeper.ParseDenomFromSendPacket(transfertypes.FungibleTokenPacketData{Denom: d.Path()})
	verif.Reach("parsed")
	verif.Assert(got == d.IBCDenom(), "the limiter charges a send to the denomination ICS-20 escrows or burns")
}

// HarnessSendDenom / HarnessSendDenomUnambiguous.
func HarnessSendDenom()            { send(false) }
func HarnessSendDenomUnambiguous() { send(true) }
