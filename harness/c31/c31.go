// Package c31: the tracked total escrow of a denomination follows the escrow accounts. Invariant: tracked(denom) equals
// the net amount IBC transfers moved into escrow accounts, hence is non-negative and at most their combined balance.
// Each harness checks one arbitrary step from an arbitrary state: the tracked amount changes by exactly the change of
// the channel's escrow account, stays non-negative, and no other tracked entry changes.
package c31

import "verifharness/xferkit"

func HarnessSendStep() { xferkit.KeeperSend(xferkit.Tracked, 2) }

func HarnessRecvStep() { xferkit.KeeperRecv(xferkit.Tracked, 2) }

func HarnessRefundStep() { xferkit.KeeperRefund(xferkit.Tracked, 2) }
