// Package c04: timeouts are sound — never both received and timed out, never early.
package c04

import (
	"bytes"
	"math"

	sdk "github.com/cosmos/cosmos-sdk/types"

	clienttypes "github.com/cosmos/ibc-go/v11/modules/core/02-client/types"
	conntypes "github.com/cosmos/ibc-go/v11/modules/core/03-connection/types"
	chantypes "github.com/cosmos/ibc-go/v11/modules/core/04-channel/types"
	v2 "github.com/cosmos/ibc-go/v11/modules/core/04-channel/v2/types"
	commitmenttypes "github.com/cosmos/ibc-go/v11/modules/core/23-commitment/types"
	host "github.com/cosmos/ibc-go/v11/modules/core/24-host"
	hostv2 "github.com/cosmos/ibc-go/v11/modules/core/24-host/v2"
	"github.com/cosmos/ibc-go/v11/modules/core/exported"

	"verifharness/corekit"
	"verifharness/models"
	"verifharness/verif"
)

func cat(parts ...[]byte) []byte {
	var out []byte
	for _, p := range parts {
		out = append(out, p...)
	}
	return out
}

// HarnessV1TimeoutOnlyWhenElapsed: a v1 timeout is processed only if the timeout had elapsed at the proof height
// (height or the counterparty timestamp at that height), and the proof of non-receipt was requested at that same height
// for exactly this packet's destination identifiers.
func HarnessV1TimeoutOnlyWhenElapsed() {
	s := corekit.SendSide()
	w, p := s.W, s.P
	msg := s.TimeoutMsg()
	res, err := w.IBC.Timeout(w.Ctx, msg)
	verif.Reach("returned")
	if err != nil || res.Result != chantypes.SUCCESS {
		return
	}
	verif.Reach("timed out")
	verif.Assert(verif.CallCount("TimestampAtHeight") == 1, "the counterparty timestamp is read once")
	verif.Assert(verif.CallArgUint64("TimestampAtHeight", 0, 1) == msg.ProofHeight.RevisionNumber && verif.CallArgUint64("TimestampAtHeight", 0, 2) == msg.ProofHeight.RevisionHeight, "at the proof height")
	ts := verif.CallArgUint64("TimestampAtHeight", 0, 3)
	verif.Assert(chantypes.NewTimeout(p.TimeoutHeight, p.TimeoutTimestamp).Elapsed(msg.ProofHeight, ts), "the timeout had elapsed on the counterparty at the proof height")
	prefix := s.Conn.Counterparty.Prefix.KeyPrefix
	if s.Ch.Ordering == chantypes.ORDERED {
		verif.Reach("ordered")
		verif.Assert(msg.NextSequenceRecv <= p.Sequence, "ordered: the packet had not been received (nextSequenceRecv <= sequence)")
		verif.Assert(verif.CallCount("VerifyMembership") == 1 && verif.CallCount("VerifyNonMembership") == 0, "ordered: one membership proof of nextSequenceRecv")
		verif.Assert(verif.CallArgUint64("VerifyMembership", 0, 1) == msg.ProofHeight.RevisionNumber && verif.CallArgUint64("VerifyMembership", 0, 2) == msg.ProofHeight.RevisionHeight, "ordered: proof at the same proof height")
		verif.Assert(bytes.Equal(verif.CallArgBytes("VerifyMembership", 0, 6), cat(prefix, []byte("|"), host.NextSequenceRecvKey(p.DestinationPort, p.DestinationChannel))), "ordered: path = nextSequenceRecv key of the destination channel")
		verif.Assert(bytes.Equal(verif.CallArgBytes("VerifyMembership", 0, 7), sdk.Uint64ToBigEndian(msg.NextSequenceRecv)), "ordered: value = the claimed nextSequenceRecv")
	} else {
		verif.Reach("unordered")
		verif.Assert(verif.CallCount("VerifyNonMembership") == 1 && verif.CallCount("VerifyMembership") == 0, "unordered: one proof of receipt absence")
		verif.Assert(verif.CallArgUint64("VerifyNonMembership", 0, 1) == msg.ProofHeight.RevisionNumber && verif.CallArgUint64("VerifyNonMembership", 0, 2) == msg.ProofHeight.RevisionHeight, "unordered: proof at the same proof height")
		verif.Assert(bytes.Equal(verif.CallArgBytes("VerifyNonMembership", 0, 6), cat(prefix, []byte("|"), host.PacketReceiptKey(p.DestinationPort, p.DestinationChannel, p.Sequence))), "unordered: path = receipt key of (dest port, dest channel, sequence)")
	}
	verif.Assert(verif.CallArgString("TimestampAtHeight", 0, 0) == s.Conn.ClientId, "timestamp and proof come from the connection's client")
}

// HarnessV2TimeoutOnlyWhenElapsed: v2, whole seconds: processed only if floor(counterparty time at proof height / 1s) >= timeout,
// with receipt absence proven at that height under the packet's destination identifier.
func HarnessV2TimeoutOnlyWhenElapsed() {
	s := corekit.SendSideV2(1, 2)
	w, p := s.W, s.P
	msg := s.TimeoutMsg()
	res, err := w.IBC.ChannelKeeperV2.Timeout(w.Ctx, msg)
	verif.Reach("returned")
	if err != nil || res.Result != v2.SUCCESS {
		return
	}
	verif.Reach("timed out")
	verif.Assert(verif.CallCount("TimestampAtHeight") == 1, "the counterparty timestamp is read once")
	verif.Assert(verif.CallArgUint64("TimestampAtHeight", 0, 1) == msg.ProofHeight.RevisionNumber && verif.CallArgUint64("TimestampAtHeight", 0, 2) == msg.ProofHeight.RevisionHeight, "at the proof height")
	ts := verif.CallArgUint64("TimestampAtHeight", 0, 3)
	verif.Assume(ts <= math.MaxInt64) // consensus timestamps are int64 nanoseconds
	verif.Assert(ts/1000000000 >= p.TimeoutTimestamp, "the timeout (seconds) had been reached on the counterparty at the proof height, rounding down")
	verif.Assert(verif.CallCount("VerifyNonMembership") == 1, "one proof of receipt absence")
	verif.Assert(verif.CallArgString("VerifyNonMembership", 0, 0) == models.ClientID, "verified by the resolved light client")
	verif.Assert(verif.CallArgUint64("VerifyNonMembership", 0, 1) == msg.ProofHeight.RevisionNumber && verif.CallArgUint64("VerifyNonMembership", 0, 2) == msg.ProofHeight.RevisionHeight, "at the same proof height")
	verif.Assert(bytes.Equal(verif.CallArgBytes("VerifyNonMembership", 0, 6), cat(s.CP.Prefix[0], []byte("|"), s.CP.Prefix[1], hostv2.PacketReceiptKey(p.DestinationClient, p.Sequence))), "path = v2 receipt key of (destination client, sequence)")
}

// HarnessV2RecvBeforeTimeout: the receiving side accepts only strictly before the timeout second: together with the
// previous harness (and monotone chain time) a packet cannot be both received and timed out.
func HarnessV2RecvBeforeTimeout() {
	s := corekit.RecvSideV2(1, 1)
	w, p := s.W, s.P
	res, err := w.IBC.ChannelKeeperV2.RecvPacket(w.Ctx, s.RecvMsg())
	if err == nil && res.Result == v2.SUCCESS {
		verif.Reach("received")
		verif.Assert(uint64(w.Ctx.BlockTime().Unix()) < p.TimeoutTimestamp, "received only while block time (seconds, rounded down) < timeout")
	}
	verif.Reach("returned")
}

// HarnessLocalhostTimeoutNotEarly: over the REAL 09-localhost client (loopback channel) a timeout is processed only
// once the chain itself has reached the timeout height or time.
func HarnessLocalhostTimeoutNotEarly() {
	w := models.NewWorld()
	w.SetParams()
	p := chantypes.Packet{
		Sequence: verif.Uint64("seq"), SourcePort: models.AppPort, SourceChannel: verif.String("srcChan"),
		DestinationPort: verif.String("dstPort"), DestinationChannel: verif.String("dstChan"),
		Data: verif.Bytes("data"), TimeoutHeight: corekit.Height("timeoutHeight"), TimeoutTimestamp: verif.Uint64("timeoutTs"),
	}
	connID := verif.String("conn.id")
	conn := conntypes.ConnectionEnd{
		ClientId: exported.LocalhostClientID,
		Versions: []*conntypes.Version{{Identifier: verif.String("conn.version"), Features: []string{verif.String("conn.feature")}}},
		State:    conntypes.State(verif.Int32("conn.state")),
		Counterparty: conntypes.Counterparty{ClientId: verif.String("conn.cpClient"), ConnectionId: verif.String("conn.cpConn"),
			Prefix: commitmenttypes.NewMerklePrefix(verif.Bytes("conn.cpPrefix"))},
		DelayPeriod: verif.Uint64("conn.delay"),
	}
	w.IBC.ConnectionKeeper.SetConnection(w.Ctx, connID, conn)
	ch := w.SymChannel("chan", p.SourcePort, p.SourceChannel, connID)
	verif.Assume(ch.Ordering == chantypes.UNORDERED)
	res, err := w.IBC.Timeout(w.Ctx, &chantypes.MsgTimeout{Packet: p, ProofUnreceived: verif.Bytes("proof"), ProofHeight: corekit.Height("proofHeight"), NextSequenceRecv: verif.Uint64("nextSeqRecv"), Signer: models.Relayer})
	verif.Reach("returned")
	if err == nil && res.Result == chantypes.SUCCESS {
		verif.Reach("timed out over localhost")
		self := clienttypes.GetSelfHeight(w.Ctx)
		now := uint64(w.Ctx.BlockTime().UnixNano())
		verif.Assert(chantypes.NewTimeout(p.TimeoutHeight, p.TimeoutTimestamp).Elapsed(self, now), "a loopback timeout is processed only after the chain itself reached the timeout")
	}
}
