// Package c19: packet delay periods are enforced with exact block-delay arithmetic.
package c19

import (
	"math"
	_ "unsafe"

	storetypes "github.com/cosmos/cosmos-sdk/store/v2/types"
	sdk "github.com/cosmos/cosmos-sdk/types"

	clienttypes "github.com/cosmos/ibc-go/v11/modules/core/02-client/types"
	connkeeper "github.com/cosmos/ibc-go/v11/modules/core/03-connection/keeper"
	conntypes "github.com/cosmos/ibc-go/v11/modules/core/03-connection/types"
	"github.com/cosmos/ibc-go/v11/modules/core/exported"
	ibctm "github.com/cosmos/ibc-go/v11/modules/light-clients/07-tendermint"

	"verifharness/models"
	"verifharness/verif"
)

//go:linkname getBlockDelay github.com/cosmos/ibc-go/v11/modules/core/03-connection/keeper.(*Keeper).getBlockDelay
func getBlockDelay(k *connkeeper.Keeper, ctx sdk.Context, c conntypes.ConnectionEnd) uint64

//go:linkname verifyDelayPeriodPassed github.com/cosmos/ibc-go/v11/modules/light-clients/07-tendermint.verifyDelayPeriodPassed
func verifyDelayPeriodPassed(ctx sdk.Context, store storetypes.KVStore, proofHeight exported.Height, delayTimePeriod, delayBlockPeriod uint64) error

// HarnessBlockDelayIsExactCeiling: getBlockDelay = 0 if the expected block time is 0, else ceil(delay / perBlock),
// for every 64-bit delay and block time.
func HarnessBlockDelayIsExactCeiling() {
	verif.RegisterType(&conntypes.Params{})
	ctx := verif.NewCtx()
	k := connkeeper.NewKeeper(models.Codec{}, models.StoreService{Name: "ibc"}, nil)
	var conn conntypes.ConnectionEnd
	conn.DelayPeriod = verif.Uint64("delay")
	perBlock := k.GetParams(ctx).MaxExpectedTimePerBlock // panics when params are unset (genesis always sets them)
	verif.NoPanic()
	got := getBlockDelay(k, ctx, conn)
	verif.Reach("computed")
	if perBlock == 0 {
		verif.Assert(got == 0, "zero expected block time gives zero block delay")
		return
	}
	want := conn.DelayPeriod / perBlock
	if conn.DelayPeriod%perBlock != 0 {
		want++
	}
	verif.Assert(got == want, "block delay is the exact ceiling of delay/perBlock")
}

func clientStore(ctx sdk.Context) storetypes.KVStore {
	return models.KVStoreAdapter(models.Store{Ctx: ctx, Name: "client"})
}

// HarnessDelayTimeBound: accepted => now >= processedTime + delay as mathematical integers (no wrap-around).
func HarnessDelayTimeBound() {
	ctx := verif.NewCtx()
	st := clientStore(ctx)
	ph := clienttypes.NewHeight(verif.Uint64("ph.rev"), verif.Uint64("ph.h"))
	delay := verif.Uint64("delayTime")
	verif.Assume(delay != 0)
	err := verifyDelayPeriodPassed(ctx, st, ph, delay, 0)
	now := uint64(ctx.BlockTime().UnixNano())
	processed, found := ibctm.GetProcessedTime(st, ph)
	if err == nil {
		verif.Reach("accepted")
		verif.Assert(found, "accepted only when a processed time is stored for the proof height")
		verif.Assert(processed <= math.MaxUint64-delay, "accepted only if processedTime+delay does not wrap")
		verif.Assert(processed <= math.MaxUint64-delay && now >= processed+delay, "accepted only once now >= processedTime + delay")
	} else {
		verif.Reach("rejected")
		if found && processed <= math.MaxUint64-delay {
			verif.Assert(now < processed+delay, "rejected only before processedTime + delay (inclusive boundary)")
		}
	}
}

// HarnessDelayBlockBound: accepted => self height >= (processed revision, processed height + blockDelay), no wrap.
func HarnessDelayBlockBound() {
	ctx := verif.NewCtx().WithChainID("chain-" + verif.DecU64(verif.Uint64("selfRev")))
	st := clientStore(ctx)
	ph := clienttypes.NewHeight(verif.Uint64("ph.rev"), verif.Uint64("ph.h"))
	delay := verif.Uint64("delayBlocks")
	verif.Assume(delay != 0)
	err := verifyDelayPeriodPassed(ctx, st, ph, 0, delay)
	self := clienttypes.GetSelfHeight(ctx)
	processed, found := ibctm.GetProcessedHeight(st, ph)
	if err == nil {
		verif.Reach("accepted")
		verif.Assert(found, "accepted only when a processed height is stored for the proof height")
		pr, phh := processed.GetRevisionNumber(), processed.GetRevisionHeight()
		verif.Assert(phh <= math.MaxUint64-delay, "accepted only if processedHeight+delay does not wrap")
		if phh <= math.MaxUint64-delay {
			verif.Assert(self.GTE(clienttypes.NewHeight(pr, phh+delay)), "accepted only once self height >= processed height + block delay")
		}
	} else {
		verif.Reach("rejected")
	}
}

// HarnessZeroDelaySkipsLookup: with both delays zero nothing is read and the check passes.
func HarnessZeroDelaySkipsLookup() {
	ctx := verif.NewCtx()
	st := clientStore(ctx)
	ph := clienttypes.NewHeight(verif.Uint64("ph.rev"), verif.Uint64("ph.h"))
	err := verifyDelayPeriodPassed(ctx, st, ph, 0, 0)
	verif.Reach("returned")
	verif.Assert(err == nil, "zero delays always pass")
}
