// Package c40: callbacks are gas-bounded and cannot break the packet lifecycle. The real callbacks middleware (IBC v1
// stack) is driven with an arbitrary underlying application, an arbitrary contract keeper (writes state through the
// context it is given, burns an arbitrary amount of gas on that context's meter, then succeeds, errors or panics) and
// arbitrary gas configuration (transaction limit, gas already used, user limit, chain maximum).
package c40

import (

	storetypes "github.com/cosmos/cosmos-sdk/store/v2/types"
	sdk "github.com/cosmos/cosmos-sdk/types"

	callbacks "github.com/cosmos/ibc-go/v11/modules/apps/callbacks"
	clienttypes "github.com/cosmos/ibc-go/v11/modules/core/02-client/types"
	channeltypes "github.com/cosmos/ibc-go/v11/modules/core/04-channel/types"
	ibcexported "github.com/cosmos/ibc-go/v11/modules/core/exported"

	"verifharness/models"
	"verifharness/verif"
)

// contract is an arbitrary contract keeper; it records what it did on this path.
type contract struct {
	Ran       int
	Gas       uint64
	Behaviour int
	Value     []byte
}

const contractStore = "callbacks"

var contractKey = []byte("contract-state")

func (c *contract) run(ctx sdk.Context, tag string) error {
	c.Ran++
	c.Value = verif.Bytes("contract.value")
	verif.Assume(len(c.Value) > 0)
	verif.StSet(ctx, contractStore, contractKey, c.Value)
	c.Gas, c.Behaviour = verif.Uint64("contract.gas"), verif.Choice("contract.behaviour", 3)
	ctx.GasMeter().ConsumeGas(c.Gas, "contract execution")
	switch c.Behaviour {
	case 0:
		return nil
	case 1:
		return models.ErrInsufficientFunds
	}
	panic("contract panics")
}

func (c *contract) IBCSendPacketCallback(ctx sdk.Context, sourcePort, sourceChannel string, timeoutHeight clienttypes.Height, timeoutTimestamp uint64, packetData []byte, contractAddress, packetSenderAddress, version string) error {
	return c.run(ctx, "send")
}
func (c *contract) IBCOnAcknowledgementPacketCallback(ctx sdk.Context, packet channeltypes.Packet, acknowledgement []byte, relayer sdk.AccAddress, contractAddress, packetSenderAddress, version string) error {
	return c.run(ctx, "ack")
}
func (c *contract) IBCOnTimeoutPacketCallback(ctx sdk.Context, packet channeltypes.Packet, relayer sdk.AccAddress, contractAddress, packetSenderAddress, version string) error {
	return c.run(ctx, "timeout")
}
func (c *contract) IBCReceivePacketCallback(ctx sdk.Context, packet ibcexported.PacketI, ack ibcexported.Acknowledgement, contractAddress, version string) error {
	return c.run(ctx, "recv")
}

// packetData is packet data that opts in to callbacks with an arbitrary address and user gas limit.
type packetData struct {
	Address  string
	GasLimit string
}

func (d packetData) GetCustomPacketData(key string) any {
	return map[string]any{"address": d.Address, "gas_limit": d.GasLimit}
}
func (d packetData) GetPacketSender(sourcePortID string) string { return "sender" }

// app is the underlying application: arbitrary callbacks (models.SymApp) that decode every packet to callback data.
type app struct {
	*models.SymApp
	Data packetData
}

func (a app) UnmarshalPacketData(ctx sdk.Context, portID, channelID string, bz []byte) (any, string, error) {
	return a.Data, "ics20-1", nil
}

// ics4 is an arbitrary channel layer below the middleware.
type ics4 struct{ X int }

func (ics4) SendPacket(ctx sdk.Context, sourcePort, sourceChannel string, timeoutHeight clienttypes.Height, timeoutTimestamp uint64, data []byte) (uint64, error) {
	if verif.Bool("ics4.send.fails") {
		return 0, models.ErrInsufficientFunds
	}
	return verif.Uint64("ics4.sequence"), nil
}
func (ics4) WriteAcknowledgement(ctx sdk.Context, packet ibcexported.PacketI, ack ibcexported.Acknowledgement) error {
	if verif.Bool("ics4.writeack.fails") {
		return models.ErrInsufficientFunds
	}
	return nil
}
func (ics4) GetAppVersion(ctx sdk.Context, portID, channelID string) (string, bool) {
	return "ics20-1", true
}

type world struct {
	ctx                        sdk.Context
	mw                         *callbacks.IBCMiddleware
	c                          *contract
	maxGas, userGas, remaining uint64
	snap                       int
	packet                     channeltypes.Packet
}

// setup: transaction gas meter with an arbitrary limit and arbitrary gas already used; arbitrary chain maximum and user limit.
func setup() *world {
	verif.MountStores(contractStore)
	w := &world{ctx: verif.NewCtx()}
	limit, used := verif.Uint64("tx.gasLimit"), verif.Uint64("tx.gasUsed")
	verif.Assume(used <= limit)
	w.ctx = w.ctx.WithGasMeter(storetypes.NewGasMeter(limit))
	w.ctx.GasMeter().ConsumeGas(used, "before")
	w.remaining = limit - used
	w.maxGas, w.userGas = verif.Uint64("maxCallbackGas"), verif.Uint64("userGasLimit")
	verif.Assume(w.maxGas > 0)
	userStr := verif.DecU64(w.userGas)
	if verif.Bool("noUserLimit") {
		userStr, w.userGas = "", 0
	}
	w.c = &contract{}
	w.mw = callbacks.NewIBCMiddleware(w.c, w.maxGas)
	w.mw.SetUnderlyingApplication(app{SymApp: &models.SymApp{}, Data: packetData{Address: "contract-address", GasLimit: userStr}})
	w.mw.SetICS4Wrapper(ics4{X: 1})
	w.packet = channeltypes.Packet{Sequence: verif.Uint64("sequence"), SourcePort: "transfer", SourceChannel: "channel-0", DestinationPort: "transfer", DestinationChannel: "channel-1", Data: verif.Bytes("data")}
	w.snap = verif.StSnapshot(w.ctx, contractStore)
	return w
}

// execLimit is the bound of the property: min(remaining gas, user limit capped at the chain maximum).
func (w *world) execLimit() uint64 {
	commit := w.userGas
	if commit == 0 || commit > w.maxGas {
		commit = w.maxGas
	}
	return min(w.remaining, commit)
}

func (w *world) commitLimit() uint64 {
	if w.userGas == 0 || w.userGas > w.maxGas {
		return w.maxGas
	}
	return w.userGas
}

// charged is the gas the entry point added to the transaction's meter.
func (w *world) charged() uint64 {
	return w.ctx.GasMeter().GasConsumed() - (w.ctx.GasMeter().Limit() - w.remaining)
}

// contractFailed: the contract returned an error, panicked, or burned more than its execution limit.
func (w *world) contractFailed() bool { return w.c.Gas > w.execLimit() || w.c.Behaviour != 0 }

// retryAbort: the contract ran out of gas only because the relayer supplied less than the committed limit.
func (w *world) retryAbort() bool { return w.c.Gas > w.execLimit() && w.execLimit() < w.commitLimit() }

// isolation: a failed contract leaves no trace, a successful one keeps its write; gas is bounded either way.
func (w *world) isolation() {
	verif.Assert(w.c.Ran == 1, "the callback runs exactly once")
	verif.Assert(w.charged() <= w.execLimit(), "the callback is charged at most min(remaining gas, user limit capped at the chain maximum)")
	if w.contractFailed() {
		verif.Reach("contract failed")
		verif.Assert(verif.StEqual(w.ctx, contractStore, w.snap), "a failed callback's state changes are discarded")
	} else {
		verif.Reach("contract succeeded")
		verif.Assert(string(verif.StGet(w.ctx, contractStore, contractKey)) == string(w.c.Value), "a successful callback's state change is kept")
	}
}

func relayer() sdk.AccAddress { return sdk.MustAccAddressFromBech32(models.Relayer) }

// sourceStep: OnAcknowledgementPacket / OnTimeoutPacket through the middleware.
func sourceStep(timeout bool) {
	w := setup()
	var err error
	panicked := verif.Panics(func() {
		if timeout {
			err = w.mw.OnTimeoutPacket(w.ctx, "ics20-1", w.packet, relayer())
		} else {
			err = w.mw.OnAcknowledgementPacket(w.ctx, "ics20-1", w.packet, verif.Bytes("ack"), relayer())
		}
	})
	if w.c.Ran == 0 {
		verif.Reach("application refused")
		verif.Assert(!panicked && err != nil, "without a callback the application's refusal is returned")
		verif.Assert(w.charged() == 0 && verif.StEqual(w.ctx, contractStore, w.snap), "without a callback nothing is charged or written")
		return
	}
	verif.Reach("callback executed")
	verif.Assert(panicked == w.retryAbort(), "the transaction aborts exactly when the callback ran out of gas below the committed limit")
	if panicked {
		verif.Reach("aborted for retry")
		return
	}
	verif.Assert(err == nil, "a failing callback does not undo the acknowledgement or timeout")
	w.isolation()
}

// HarnessAckCallback / HarnessTimeoutCallback: source callbacks after the application processed the acknowledgement / timeout.
func HarnessAckCallback()     { sourceStep(false) }
func HarnessTimeoutCallback() { sourceStep(true) }

// HarnessRecvCallback: destination callback after a successful synchronous receive.
func HarnessRecvCallback() {
	w := setup()
	var ack ibcexported.Acknowledgement
	panicked := verif.Panics(func() { ack = w.mw.OnRecvPacket(w.ctx, "ics20-1", w.packet, relayer()) })
	if w.c.Ran == 0 {
		verif.Reach("no callback")
		verif.Assert(!panicked, "no panic without a callback")
		verif.Assert(w.charged() == 0 && verif.StEqual(w.ctx, contractStore, w.snap), "without a callback nothing is charged or written")
		return
	}
	verif.Reach("callback executed")
	verif.Assert(panicked == w.retryAbort(), "the transaction aborts exactly when the callback ran out of gas below the committed limit")
	if panicked {
		return
	}
	w.isolation()
	if w.contractFailed() {
		verif.Assert(ack != nil && !ack.Success(), "a failing destination callback turns the receive into an error acknowledgement")
	} else {
		verif.Assert(ack != nil && ack.Success(), "a successful destination callback keeps the application's acknowledgement")
	}
}

// HarnessWriteAckCallback: destination callback when the application writes its acknowledgement asynchronously.
func HarnessWriteAckCallback() {
	w := setup()
	ack := models.SymAck{Ok: verif.Bool("asyncAck.ok"), Bz: verif.Bytes("asyncAck.bytes")}
	var err error
	panicked := verif.Panics(func() { err = w.mw.WriteAcknowledgement(w.ctx, w.packet, ack) })
	if w.c.Ran == 0 {
		verif.Reach("channel layer refused")
		verif.Assert(!panicked && err != nil, "without a callback the channel layer's refusal is returned")
		verif.Assert(w.charged() == 0 && verif.StEqual(w.ctx, contractStore, w.snap), "without a callback nothing is charged or written")
		return
	}
	verif.Reach("callback executed")
	verif.Assert(panicked == w.retryAbort(), "the transaction aborts exactly when the callback ran out of gas below the committed limit")
	if panicked {
		return
	}
	verif.Assert(err == nil, "a failing callback does not undo the written acknowledgement")
	w.isolation()
}

// HarnessSendCallback: source callback on SendPacket; a failing send callback refuses the send (panics propagate).
func HarnessSendCallback() {
	w := setup()
	var err error
	panicked := verif.Panics(func() {
		_, err = w.mw.SendPacket(w.ctx, "transfer", "channel-0", clienttypes.NewHeight(1, verif.Uint64("timeoutHeight")), verif.Uint64("timeoutTimestamp"), verif.Bytes("data"))
	})
	if w.c.Ran == 0 {
		verif.Reach("channel layer refused")
		verif.Assert(!panicked && err != nil, "without a callback the channel layer's refusal is returned")
		return
	}
	verif.Reach("callback executed")
	if panicked {
		verif.Reach("send aborted by panic")
		verif.Assert(w.contractFailed(), "only a failing callback aborts the send")
		return
	}
	w.isolation()
	verif.Assert((err != nil) == w.contractFailed(), "the send is refused exactly when its callback fails")
}
