// Package c32: failed transfers refund exactly the sent amount, exactly once.
package c32

import (
	sdk "github.com/cosmos/cosmos-sdk/types"

	"github.com/cosmos/ibc-go/v11/modules/apps/transfer/types"
	channeltypes "github.com/cosmos/ibc-go/v11/modules/core/04-channel/types"
	channeltypesv2 "github.com/cosmos/ibc-go/v11/modules/core/04-channel/v2/types"

	"verifharness/models"
	"verifharness/verif"
	"verifharness/xferkit"
)

// refundContract checks the post-state of a successful refund of (denom, amount) to sender over (port, channel)
// against the pre-state observation.
func refundContract(w *xferkit.World, pre xferkit.Obs, snap int, sender sdk.AccAddress, port, channel string, denom types.Denom, amount sdk.Coin) {
	post := w.Observe(sender, port, channel, amount.Denom)
	verif.Assert(post.Account.Equal(pre.Account.Add(amount.Amount)), "the sender's balance goes up by exactly the refunded amount")
	if denom.HasPrefix(port, channel) {
		verif.Reach("refund by minting")
		verif.Assert(post.Supply.Equal(pre.Supply.Add(amount.Amount)), "a voucher burned on send is minted back: supply up by the amount")
		verif.Assert(post.Escrow.Equal(pre.Escrow) && post.TotalEscrow.Equal(pre.TotalEscrow), "minting back leaves the escrow account and the tracked escrow alone")
	} else {
		verif.Reach("refund by unescrow")
		verif.Assert(post.Supply.Equal(pre.Supply), "unescrowing does not change the supply")
		verif.Assert(post.Escrow.Equal(pre.Escrow.Sub(amount.Amount)), "the channel's escrow account pays exactly the amount")
		verif.Assert(post.TotalEscrow.Equal(pre.TotalEscrow.Sub(amount.Amount)), "the tracked total escrow goes down by exactly the amount")
	}
	verif.Assert(post.Module.Equal(pre.Module), "the transfer module account keeps nothing")
	verif.Assert(verif.StEqualExcept(w.Ctx, w.Bank.Store, snap, w.BankKeys(sender, port, channel, amount.Denom)...), "no other balance or supply changes")
}

// HarnessKeeperRefund: keeper.OnTimeoutPacket / OnAcknowledgementPacket from an arbitrary bank and transfer state with an
// arbitrary token (0..2 hops), sender, source port and channel.
func HarnessKeeperRefund() {
	w := xferkit.New()
	port, channel := verif.String("port"), verif.String("channel")
	denom := xferkit.SymDenom("denom", 2)
	amt, amtStr := xferkit.SymAmount("amount")
	sender := xferkit.SymAccount("sender", 2)
	xferkit.DistinctAccounts(sender.Addr, port, channel)
	data := types.InternalTransferRepresentation{Token: types.Token{Denom: denom, Amount: amtStr}, Sender: sender.Bech32, Receiver: verif.String("receiver"), Memo: verif.String("memo")}
	coin := sdk.Coin{Denom: denom.IBCDenom(), Amount: amt}
	pre := w.Observe(sender.Addr, port, channel, coin.Denom)
	snap := verif.StSnapshot(w.Ctx, w.Bank.Store)
	var err error
	switch verif.Choice("outcome", 3) {
	case 0:
		err = w.K.OnTimeoutPacket(w.Ctx, port, channel, data)
	case 1:
		err = w.K.OnAcknowledgementPacket(w.Ctx, port, channel, data, errorAck())
	default:
		err = w.K.OnAcknowledgementPacket(w.Ctx, port, channel, data, channeltypes.NewResultAcknowledgement([]byte{1}))
		verif.Reach("success acknowledgement")
		verif.Assert(err == nil, "a success acknowledgement is accepted")
		verif.Assert(verif.StEqual(w.Ctx, w.Bank.Store, snap), "a success acknowledgement changes no balance")
		verif.Assert(w.TotalEscrow(coin.Denom).Equal(pre.TotalEscrow), "a success acknowledgement leaves the tracked escrow alone")
		return
	}
	if err != nil {
		verif.Reach("refund refused")
		return
	}
	verif.Reach("refunded")
	refundContract(w, pre, snap, sender.Addr, port, channel, denom, coin)
}

// wirePaths are the denomination paths the module-level harnesses put on the wire (parsing arbitrary paths is C33's
// subject): a native token, one-hop vouchers over a v1 channel and over a v2 client, and a two-hop voucher.
var wirePaths = []string{"uatom", "transfer/channel-0/uatom", "transfer/07-tendermint-0/uatom", "transfer/channel-0/transfer/channel-1/uatom"}

// wireData builds the packet data the sending chain committed: an arbitrary positive amount of one of wirePaths from an
// arbitrary pool account, in the canonical JSON encoding.
func wireData() (types.FungibleTokenPacketData, types.Denom, sdk.Coin, xferkit.Account) {
	path := wirePaths[verif.Choice("denomPath", len(wirePaths))]
	amt, amtStr := xferkit.SymAmount("amount")
	sender := xferkit.SymAccount("sender", 2)
	ftpd := types.NewFungibleTokenPacketData(path, amtStr, sender.Bech32, verif.String("receiver"), verif.String("memo"))
	verif.Assume(ftpd.ValidateBasic() == nil) // the sending chain only commits data its validator accepted
	denom := types.ExtractDenomFromPath(path)
	return ftpd, denom, sdk.Coin{Denom: denom.IBCDenom(), Amount: amt}, sender
}

// HarnessV2ModuleRefund: the IBC v2 transfer module's OnTimeoutPacket / OnAcknowledgementPacket (universal error
// acknowledgement, or a success acknowledgement) with arbitrary source and destination client identifiers and ports.
func HarnessV2ModuleRefund() {
	w := xferkit.New()
	srcClient, dstClient := verif.String("sourceClient"), verif.String("destClient")
	ftpd, denom, coin, sender := wireData()
	payload := channeltypesv2.Payload{SourcePort: verif.String("sourcePort"), DestinationPort: verif.String("destPort"), Version: types.V1, Encoding: types.EncodingJSON, Value: ftpd.GetBytes()}
	if verif.Thorough() && verif.Bool("defaultEncoding") {
		payload.Encoding = ""
	}
	port, channel := payload.SourcePort, srcClient
	xferkit.DistinctAccounts(sender.Addr, port, channel)
	pre := w.Observe(sender.Addr, port, channel, coin.Denom)
	snap := verif.StSnapshot(w.Ctx, w.Bank.Store)
	relayer := sdk.MustAccAddressFromBech32(models.Relayer)
	seq := verif.Uint64("sequence")
	var err error
	switch verif.Choice("outcome", 3) {
	case 0:
		err = w.V2.OnTimeoutPacket(w.Ctx, srcClient, dstClient, seq, payload, relayer)
	case 1:
		err = w.V2.OnAcknowledgementPacket(w.Ctx, srcClient, dstClient, seq, channeltypesv2.ErrorAcknowledgement[:], payload, relayer)
	default:
		err = w.V2.OnAcknowledgementPacket(w.Ctx, srcClient, dstClient, seq, channeltypes.NewResultAcknowledgement([]byte{1}).Acknowledgement(), payload, relayer)
		verif.Reach("success acknowledgement")
		verif.Assert(err == nil, "a success acknowledgement is accepted")
		verif.Assert(verif.StEqual(w.Ctx, w.Bank.Store, snap), "a success acknowledgement changes no balance")
		verif.Assert(w.TotalEscrow(coin.Denom).Equal(pre.TotalEscrow), "a success acknowledgement leaves the tracked escrow alone")
		return
	}
	if err != nil {
		verif.Reach("refund refused")
		return
	}
	verif.Reach("refunded")
	refundContract(w, pre, snap, sender.Addr, port, channel, denom, coin)
}

// HarnessV1ModuleRefund: the IBC v1 transfer module's OnTimeoutPacket / OnAcknowledgementPacket with an arbitrary packet
// (arbitrary ports and channels) carrying canonical data.
func HarnessV1ModuleRefund() {
	w := xferkit.New()
	ftpd, denom, coin, sender := wireData()
	packet := channeltypes.Packet{Sequence: verif.Uint64("sequence"), SourcePort: verif.String("sourcePort"), SourceChannel: verif.String("sourceChannel"),
		DestinationPort: verif.String("destPort"), DestinationChannel: verif.String("destChannel"), Data: ftpd.GetBytes()}
	port, channel := packet.SourcePort, packet.SourceChannel
	xferkit.DistinctAccounts(sender.Addr, port, channel)
	pre := w.Observe(sender.Addr, port, channel, coin.Denom)
	snap := verif.StSnapshot(w.Ctx, w.Bank.Store)
	relayer := sdk.MustAccAddressFromBech32(models.Relayer)
	var err error
	switch verif.Choice("outcome", 3) {
	case 0:
		err = w.V1.OnTimeoutPacket(w.Ctx, types.V1, packet, relayer)
	case 1:
		err = w.V1.OnAcknowledgementPacket(w.Ctx, types.V1, packet, errorAck().Acknowledgement(), relayer)
	default:
		err = w.V1.OnAcknowledgementPacket(w.Ctx, types.V1, packet, channeltypes.NewResultAcknowledgement([]byte{1}).Acknowledgement(), relayer)
		verif.Reach("success acknowledgement")
		verif.Assert(err == nil, "a success acknowledgement is accepted")
		verif.Assert(verif.StEqual(w.Ctx, w.Bank.Store, snap), "a success acknowledgement changes no balance")
		verif.Assert(w.TotalEscrow(coin.Denom).Equal(pre.TotalEscrow), "a success acknowledgement leaves the tracked escrow alone")
		return
	}
	if err != nil {
		verif.Reach("refund refused")
		return
	}
	verif.Reach("refunded")
	refundContract(w, pre, snap, sender.Addr, port, channel, denom, coin)
}

// errorAck is an error acknowledgement with an arbitrary error string (counterparties other than ibc-go choose their own).
func errorAck() channeltypes.Acknowledgement {
	return channeltypes.Acknowledgement{Response: &channeltypes.Acknowledgement_Error{Error: verif.String("ackError")}}
}
