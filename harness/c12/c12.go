// Package c12: channel handshake state machine (one step of each handler from an arbitrary store).
package c12

import (
	"bytes"

	conntypes "github.com/cosmos/ibc-go/v11/modules/core/03-connection/types"
	chantypes "github.com/cosmos/ibc-go/v11/modules/core/04-channel/types"
	host "github.com/cosmos/ibc-go/v11/modules/core/24-host"

	"verifharness/corekit"
	"verifharness/models"
	"verifharness/verif"
)

func cat(parts ...[]byte) []byte {
	var out []byte
	for _, p := range parts {
		out = append(out, p...)
	}
	return out
}

const (
	opAck = iota
	opConfirm
	opCloseInit
	opCloseConfirm
)

// HarnessExistingChannelTransitions: OpenAck / OpenConfirm / CloseInit / CloseConfirm on a channel end in an arbitrary
// state: the only successful transitions are INIT->OPEN (ack), TRYOPEN->OPEN (confirm) and not-CLOSED->CLOSED (close);
// CLOSED is terminal; every proof-carrying step verified exactly the counterparty end ICS-4 prescribes.
func HarnessExistingChannelTransitions() {
	op := verif.Choice("op", 4)
	s := corekit.SendSide() // the local channel end lives at (AppPort, srcChan)
	w := s.W
	port, chanID := s.P.SourcePort, s.P.SourceChannel
	pre := s.Ch
	proof, ph := verif.Bytes("proof"), corekit.Height("proofHeight")
	cpVersion, cpChan := verif.String("cpVersion"), verif.String("cpChannelID")
	var err error
	switch op {
	case opAck:
		_, err = w.IBC.ChannelOpenAck(w.Ctx, &chantypes.MsgChannelOpenAck{PortId: port, ChannelId: chanID, CounterpartyChannelId: cpChan, CounterpartyVersion: cpVersion, ProofTry: proof, ProofHeight: ph, Signer: models.Relayer})
	case opConfirm:
		_, err = w.IBC.ChannelOpenConfirm(w.Ctx, &chantypes.MsgChannelOpenConfirm{PortId: port, ChannelId: chanID, ProofAck: proof, ProofHeight: ph, Signer: models.Relayer})
	case opCloseInit:
		_, err = w.IBC.ChannelCloseInit(w.Ctx, &chantypes.MsgChannelCloseInit{PortId: port, ChannelId: chanID, Signer: models.Relayer})
	case opCloseConfirm:
		_, err = w.IBC.ChannelCloseConfirm(w.Ctx, &chantypes.MsgChannelCloseConfirm{PortId: port, ChannelId: chanID, ProofInit: proof, ProofHeight: ph, Signer: models.Relayer})
	}
	verif.Reach("returned")
	post, found := w.IBC.ChannelKeeper.GetChannel(w.Ctx, port, chanID)
	verif.Assert(found, "the channel end still exists")
	if pre.State == chantypes.CLOSED {
		verif.Reach("closed pre-state")
		verif.Assert(err != nil, "CLOSED is terminal: every handshake step on a CLOSED end fails")
		verif.Assert(post.State == chantypes.CLOSED, "a CLOSED end stays CLOSED")
	}
	if err != nil {
		return
	}
	verif.Reach("succeeded")
	want := chantypes.Channel{Ordering: pre.Ordering, Counterparty: chantypes.NewCounterparty(port, chanID), ConnectionHops: []string{s.Conn.Counterparty.ConnectionId}}
	var cpPort, cpID string
	switch op {
	case opAck:
		verif.Assert(pre.State == chantypes.INIT && post.State == chantypes.OPEN, "OpenAck: only INIT -> OPEN")
		verif.Assert(post.Version == cpVersion && post.Counterparty.ChannelId == cpChan && post.Counterparty.PortId == pre.Counterparty.PortId, "OpenAck records the counterparty's version and channel id")
		want.State, want.Version = chantypes.TRYOPEN, cpVersion
		cpPort, cpID = pre.Counterparty.PortId, cpChan
	case opConfirm:
		verif.Assert(pre.State == chantypes.TRYOPEN && post.State == chantypes.OPEN, "OpenConfirm: only TRYOPEN -> OPEN")
		want.State, want.Version = chantypes.OPEN, pre.Version
		cpPort, cpID = pre.Counterparty.PortId, pre.Counterparty.ChannelId
	case opCloseInit:
		verif.Assert(pre.State != chantypes.CLOSED && post.State == chantypes.CLOSED, "CloseInit: not CLOSED -> CLOSED")
		verif.Assert(verif.CallCount("VerifyMembership") == 0, "CloseInit needs no proof")
	case opCloseConfirm:
		verif.Assert(pre.State != chantypes.CLOSED && post.State == chantypes.CLOSED, "CloseConfirm: not CLOSED -> CLOSED")
		want.State, want.Version = chantypes.CLOSED, pre.Version
		cpPort, cpID = pre.Counterparty.PortId, pre.Counterparty.ChannelId
	}
	verif.Assert(post.Ordering == pre.Ordering && len(post.ConnectionHops) == 1 && post.ConnectionHops[0] == s.ConnID, "ordering and connection hops never change")
	verif.Assert(s.Conn.State == conntypes.OPEN, "handshake steps run only over an OPEN connection")
	if op != opCloseInit {
		verif.Assert(verif.CallCount("VerifyMembership") == 1, "exactly one proof of the counterparty channel end")
		verif.Assert(verif.CallArgString("VerifyMembership", 0, 0) == s.Conn.ClientId, "verified by the connection's client")
		verif.Assert(verif.CallArgUint64("VerifyMembership", 0, 1) == ph.RevisionNumber && verif.CallArgUint64("VerifyMembership", 0, 2) == ph.RevisionHeight, "at the submitted proof height")
		verif.Assert(bytes.Equal(verif.CallArgBytes("VerifyMembership", 0, 6), cat(s.Conn.Counterparty.Prefix.KeyPrefix, []byte("|"), host.ChannelKey(cpPort, cpID))), "path = the counterparty's channel-end key")
		verif.Assert(bytes.Equal(verif.CallArgBytes("VerifyMembership", 0, 7), verif.Encode(&want)), "value = the counterparty end ICS-4 prescribes (state, own ordering, own identifiers as its counterparty, counterparty connection hop, version)")
	}
}

// HarnessOpenInitTry: ChanOpenInit/Try create a fresh end in INIT/TRYOPEN under a newly generated identifier and
// initialise the three sequence counters to 1; Try verified the counterparty's INIT end.
func HarnessOpenInitTry() {
	w := models.NewWorld()
	w.SetParams()
	connID, conn := w.SymConnection("conn")
	isTry := verif.Choice("try", 2) == 1
	order := chantypes.Order(verif.Int32("order"))
	cp := chantypes.Counterparty{PortId: verif.String("cpPort"), ChannelId: verif.String("cpChan")}
	version := verif.String("version")
	nextSeq := w.IBC.ChannelKeeper.GetNextChannelSequence(w.Ctx)
	var chanID string
	var err error
	proof, ph := verif.Bytes("proof"), corekit.Height("proofHeight")
	if isTry {
		var res *chantypes.MsgChannelOpenTryResponse
		res, err = w.IBC.ChannelOpenTry(w.Ctx, &chantypes.MsgChannelOpenTry{PortId: models.AppPort, Channel: chantypes.Channel{State: chantypes.TRYOPEN, Ordering: order, Counterparty: cp, ConnectionHops: []string{connID}, Version: version},
			CounterpartyVersion: verif.String("cpVersion"), ProofInit: proof, ProofHeight: ph, Signer: models.Relayer})
		if err == nil {
			chanID = res.ChannelId
		}
	} else {
		var res *chantypes.MsgChannelOpenInitResponse
		res, err = w.IBC.ChannelOpenInit(w.Ctx, &chantypes.MsgChannelOpenInit{PortId: models.AppPort, Channel: chantypes.Channel{State: chantypes.INIT, Ordering: order, Counterparty: cp, ConnectionHops: []string{connID}, Version: version}, Signer: models.Relayer})
		if err == nil {
			chanID = res.ChannelId
		}
	}
	verif.Reach("returned")
	if err != nil {
		return
	}
	verif.Reach("opened")
	verif.Assert(chanID == chantypes.FormatChannelIdentifier(nextSeq), "the new channel gets the next generated identifier")
	ch, found := w.IBC.ChannelKeeper.GetChannel(w.Ctx, models.AppPort, chanID)
	verif.Assert(found, "the channel end is stored")
	if isTry {
		verif.Assert(ch.State == chantypes.TRYOPEN, "Try creates a TRYOPEN end")
		verif.Assert(conn.State == conntypes.OPEN, "Try only over an OPEN connection")
		verif.Assert(verif.CallCount("VerifyMembership") == 1, "Try verifies the counterparty's INIT end")
	} else {
		verif.Assert(ch.State == chantypes.INIT, "Init creates an INIT end")
	}
	verif.Assert(ch.Ordering == order && ch.Counterparty.PortId == cp.PortId && len(ch.ConnectionHops) == 1 && ch.ConnectionHops[0] == connID, "the end records ordering, counterparty port and the connection hop")
	s1, ok1 := w.IBC.ChannelKeeper.GetNextSequenceSend(w.Ctx, models.AppPort, chanID)
	s2, ok2 := w.IBC.ChannelKeeper.GetNextSequenceRecv(w.Ctx, models.AppPort, chanID)
	s3, ok3 := w.IBC.ChannelKeeper.GetNextSequenceAck(w.Ctx, models.AppPort, chanID)
	verif.Assert(ok1 && ok2 && ok3 && s1 == 1 && s2 == 1 && s3 == 1, "the three sequence counters start at 1")
	verif.Assert(len(conn.Versions) == 1, "the connection has exactly one negotiated version")
}
