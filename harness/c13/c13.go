// Package c13: connection handshake safety and version negotiation.
package c13

import (
	"bytes"
	"slices"

	conntypes "github.com/cosmos/ibc-go/v11/modules/core/03-connection/types"
	chantypes "github.com/cosmos/ibc-go/v11/modules/core/04-channel/types"
	commitmenttypes "github.com/cosmos/ibc-go/v11/modules/core/23-commitment/types"
	host "github.com/cosmos/ibc-go/v11/modules/core/24-host"
	"github.com/cosmos/ibc-go/v11/modules/core/exported"

	"verifharness/corekit"
	"verifharness/models"
	"verifharness/verif"
)

func cat(parts ...[]byte) []byte {
	var out []byte
	for _, p := range parts {
		out = append(out, p...)
	}
	return out
}

func symVersion(tag string, maxFeatures int) *conntypes.Version {
	v := &conntypes.Version{Identifier: verif.String(tag + ".id")}
	n := verif.Len(tag+".nfeatures", 0, maxFeatures)
	for i := 0; i < n; i++ {
		v.Features = append(v.Features, verif.String(tag+".f"+string(rune('0'+i))))
	}
	return v
}

func symVersions(tag string, maxVersions, maxFeatures int) []*conntypes.Version {
	n := verif.Len(tag+".n", 0, maxVersions)
	var out []*conntypes.Version
	for i := 0; i < n; i++ {
		out = append(out, symVersion(tag+".v"+string(rune('0'+i)), maxFeatures))
	}
	return out
}

func contains(list []string, x string) bool { return slices.Contains(list, x) }

// offers: some version in vs has identifier id and lists feature f (no branching).
func offers(vs []*conntypes.Version, id, f string) bool {
	ok := false
	for _, v := range vs {
		ok = verif.Or(ok, verif.And(v.Identifier == id, contains(v.Features, f)))
	}
	return ok
}

func hasID(vs []*conntypes.Version, id string) bool {
	ok := false
	for _, v := range vs {
		ok = verif.Or(ok, v.Identifier == id)
	}
	return ok
}

func uniqueIDs(vs []*conntypes.Version) bool {
	ok := true
	for i := range vs {
		for j := i + 1; j < len(vs); j++ {
			ok = verif.And(ok, vs[i].Identifier != vs[j].Identifier)
		}
	}
	return ok
}

// HarnessPickVersion: the negotiated version's identifier is in both lists and its features are exactly the ordered
// intersection of the two feature lists (never empty for identifier "1").
func HarnessPickVersion() {
	verif.NoPanic()
	supported, counterparty := symVersions("sup", 2, 2), symVersions("cp", 2, 2)
	verif.Assume(uniqueIDs(supported) && uniqueIDs(counterparty)) // version identifiers are unique within a list
	picked, err := conntypes.PickVersion(supported, counterparty)
	verif.Reach("returned")
	if err != nil {
		return
	}
	verif.Reach("picked")
	verif.Assert(hasID(supported, picked.Identifier) && hasID(counterparty, picked.Identifier), "the picked identifier is offered by both sides")
	for _, f := range picked.Features {
		verif.Assert(offers(supported, picked.Identifier, f) && offers(counterparty, picked.Identifier, f), "every picked feature is offered by both sides")
	}
	for _, sv := range supported {
		for _, f := range sv.Features {
			common := verif.And(sv.Identifier == picked.Identifier, offers(counterparty, picked.Identifier, f))
			verif.Assert(verif.Implies(common, contains(picked.Features, f)), "every common feature is picked")
		}
	}
	if picked.Identifier == conntypes.DefaultIBCVersionIdentifier {
		verif.Assert(len(picked.Features) > 0, "version 1 is never negotiated with an empty feature set")
	}
}

// spec of IsSupportedVersion
func specSupported(supported []*conntypes.Version, proposed *conntypes.Version) bool {
	ok := hasID(supported, proposed.Identifier)
	for _, f := range proposed.Features {
		ok = verif.And(ok, offers(supported, proposed.Identifier, f))
	}
	if len(proposed.Features) == 0 {
		ok = verif.And(ok, proposed.Identifier != conntypes.DefaultIBCVersionIdentifier)
	}
	return ok
}

// symConn stores a connection end with an arbitrary state and an arbitrary list of versions (<= 2 x <= 2 features).
func symConn(w *models.World) (string, conntypes.ConnectionEnd) {
	id := verif.String("conn.id")
	c := conntypes.ConnectionEnd{
		ClientId: models.ClientID,
		Versions: symVersions("conn", 2, 2),
		State:    conntypes.State(verif.Int32("conn.state")),
		Counterparty: conntypes.Counterparty{ClientId: verif.String("conn.cpClient"), ConnectionId: verif.String("conn.cpConn"),
			Prefix: commitmenttypes.NewMerklePrefix(verif.Bytes("conn.cpPrefix"))},
		DelayPeriod: verif.Uint64("conn.delay"),
	}
	w.IBC.ConnectionKeeper.SetConnection(w.Ctx, id, c)
	return id, c
}

// HarnessConnOpenAck: success implies INIT -> OPEN, the counterparty's version is one this end offered at INIT
// (identifier and feature subset), it becomes the single stored version, and exactly the prescribed counterparty end was proven.
func HarnessConnOpenAck() {
	w := models.NewWorld()
	w.SetParams()
	id, pre := symConn(w)
	verif.Assume(uniqueIDs(pre.Versions))
	version := symVersion("msg.version", 2)
	cpConnID := verif.String("msg.cpConnID")
	proof, ph := verif.Bytes("proof"), corekit.Height("proofHeight")
	err := w.IBC.ConnectionKeeper.ConnOpenAck(w.Ctx, id, version, cpConnID, proof, ph)
	verif.Reach("returned")
	post, _ := w.IBC.ConnectionKeeper.GetConnection(w.Ctx, id)
	if pre.State == conntypes.OPEN {
		verif.Assert(err != nil && post.State == conntypes.OPEN, "an OPEN connection never leaves OPEN")
	}
	if err != nil {
		verif.Assert(post.State == pre.State, "a failed step leaves the state unchanged")
		return
	}
	verif.Reach("acked")
	verif.Assert(pre.State == conntypes.INIT && post.State == conntypes.OPEN, "OpenAck: only INIT -> OPEN")
	verif.Assert(specSupported(pre.Versions, version), "the accepted version is one this end offered at INIT (same identifier, features a subset)")
	verif.Assert(len(post.Versions) == 1 && post.Versions[0].Identifier == version.Identifier && len(post.Versions[0].Features) == len(version.Features), "the accepted version becomes the connection's single version")
	verif.Assert(post.Counterparty.ConnectionId == cpConnID && post.ClientId == pre.ClientId && post.DelayPeriod == pre.DelayPeriod, "the counterparty connection id is recorded; client and delay unchanged")
	want := conntypes.NewConnectionEnd(conntypes.TRYOPEN, pre.Counterparty.ClientId,
		conntypes.NewCounterparty(pre.ClientId, id, commitmenttypes.NewMerklePrefix([]byte("ibc"))), []*conntypes.Version{version}, pre.DelayPeriod)
	verif.Assert(verif.CallCount("VerifyMembership") == 1, "exactly one proof of the counterparty connection end")
	verif.Assert(verif.CallArgString("VerifyMembership", 0, 0) == pre.ClientId, "verified by this connection's client")
	verif.Assert(bytes.Equal(verif.CallArgBytes("VerifyMembership", 0, 6), cat(pre.Counterparty.Prefix.KeyPrefix, []byte("|"), host.ConnectionKey(cpConnID))), "path = the counterparty's connection key")
	verif.Assert(bytes.Equal(verif.CallArgBytes("VerifyMembership", 0, 7), verif.Encode(&want)), "value = the TRYOPEN end ICS-3 prescribes (our client as its counterparty client, our connection id, the accepted version, same delay)")
}

// HarnessConnOpenConfirm: success implies TRYOPEN -> OPEN with the stored versions proven on the counterparty.
func HarnessConnOpenConfirm() {
	w := models.NewWorld()
	w.SetParams()
	id, pre := symConn(w)
	proof, ph := verif.Bytes("proof"), corekit.Height("proofHeight")
	err := w.IBC.ConnectionKeeper.ConnOpenConfirm(w.Ctx, id, proof, ph)
	verif.Reach("returned")
	post, _ := w.IBC.ConnectionKeeper.GetConnection(w.Ctx, id)
	if pre.State == conntypes.OPEN {
		verif.Assert(err != nil && post.State == conntypes.OPEN, "an OPEN connection never leaves OPEN")
	}
	if err != nil {
		verif.Assert(post.State == pre.State, "a failed step leaves the state unchanged")
		return
	}
	verif.Reach("confirmed")
	verif.Assert(pre.State == conntypes.TRYOPEN && post.State == conntypes.OPEN, "OpenConfirm: only TRYOPEN -> OPEN")
	want := conntypes.NewConnectionEnd(conntypes.OPEN, pre.Counterparty.ClientId,
		conntypes.NewCounterparty(pre.ClientId, id, commitmenttypes.NewMerklePrefix([]byte("ibc"))), pre.Versions, pre.DelayPeriod)
	verif.Assert(verif.CallCount("VerifyMembership") == 1, "exactly one proof of the counterparty connection end")
	verif.Assert(bytes.Equal(verif.CallArgBytes("VerifyMembership", 0, 6), cat(pre.Counterparty.Prefix.KeyPrefix, []byte("|"), host.ConnectionKey(pre.Counterparty.ConnectionId))), "path = the counterparty's connection key")
	verif.Assert(bytes.Equal(verif.CallArgBytes("VerifyMembership", 0, 7), verif.Encode(&want)), "value = the OPEN end ICS-3 prescribes with exactly our stored versions")
}

// HarnessLocalhostHandshakeRefused: connection handshake messages naming the localhost client fail stateless validation.
func HarnessLocalhostHandshakeRefused() {
	init := conntypes.MsgConnectionOpenInit{ClientId: exported.LocalhostClientID, Counterparty: conntypes.Counterparty{ClientId: verif.String("cpClient"), ConnectionId: verif.String("cpConn"),
		Prefix: commitmenttypes.NewMerklePrefix(verif.Bytes("prefix"))}, DelayPeriod: verif.Uint64("delay"), Signer: models.Relayer}
	verif.Assert(init.ValidateBasic() != nil, "MsgConnectionOpenInit for 09-localhost is rejected")
	try := conntypes.MsgConnectionOpenTry{ClientId: exported.LocalhostClientID, Counterparty: init.Counterparty, DelayPeriod: verif.Uint64("delay2"), Signer: models.Relayer}
	verif.Assert(try.ValidateBasic() != nil, "MsgConnectionOpenTry for 09-localhost is rejected")
	verif.Reach("end")
}

// HarnessChannelNeedsSingleVersion: a channel can be opened only over a connection with exactly one negotiated version
// that lists the channel's ordering.
func HarnessChannelNeedsSingleVersion() {
	w := models.NewWorld()
	w.SetParams()
	id, conn := symConn(w)
	order := chantypes.Order(verif.Int32("order"))
	_, err := w.IBC.ChannelKeeper.ChanOpenInit(w.Ctx, order, []string{id}, models.AppPort, chantypes.Counterparty{PortId: verif.String("cpPort")}, verif.String("version"))
	verif.Reach("returned")
	if err == nil {
		verif.Reach("opened")
		verif.Assert(len(conn.Versions) == 1, "exactly one negotiated connection version")
		verif.Assert(contains(conn.Versions[0].Features, order.String()), "the connection version supports the channel ordering")
	}
}
