// Package c49: tokens leave an account only with its authorisation. Sends debit only the signer (v1: the message's
// sender, which is its declared signer; v2: the payload's sender must equal the signer); receives, refunds and
// acknowledgements credit only the packet's receiver or original sender, whoever relays them.
package c49

import "verifharness/xferkit"

// HarnessV2SendSigner: OnSendPacket refuses a payload whose sender differs from the signer and otherwise debits only the signer.
func HarnessV2SendSigner() { xferkit.V2Send(xferkit.Auth) }

// HarnessMsgTransferSender: MsgTransfer over a v1 channel debits only the message's sender.
func HarnessMsgTransferSender() { xferkit.MsgTransferV1(xferkit.Auth) }

// HarnessV1RecvCredits / HarnessV2RecvCredits: a receive relayed by a third account credits only the named receiver.
func HarnessV1RecvCredits() { xferkit.V1Recv(xferkit.Auth) }
func HarnessV2RecvCredits() { xferkit.V2Recv(xferkit.Auth) }

// HarnessRefundCredits: a timeout or error acknowledgement credits only the packet's original sender.
func HarnessRefundCredits() { xferkit.KeeperRefund(xferkit.Auth, 2) }

// HarnessV2RefundCredits: the same through the v2 transfer module, relayed by a third account.
func HarnessV2RefundCredits() { xferkit.V2Refund(xferkit.Auth) }
