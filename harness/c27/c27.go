// Package c27: localhost verification is equivalent to reading the chain's own store.
package c27

import (
	"bytes"

	clienttypes "github.com/cosmos/ibc-go/v11/modules/core/02-client/types"
	commitmenttypesv2 "github.com/cosmos/ibc-go/v11/modules/core/23-commitment/types/v2"
	"github.com/cosmos/ibc-go/v11/modules/core/exported"
	localhost "github.com/cosmos/ibc-go/v11/modules/light-clients/09-localhost"

	"verifharness/corekit"
	"verifharness/models"
	"verifharness/verif"
)

func symPath() (commitmenttypesv2.MerklePath, int) {
	n := verif.Len("pathLen", 0, 3)
	var kp [][]byte
	for i := 0; i < n; i++ {
		kp = append(kp, verif.Bytes("path"+string(rune('0'+i))))
	}
	return commitmenttypesv2.MerklePath{KeyPath: kp}, n
}

// HarnessMembershipIsStoreRead: through the real client keeper and the real 09-localhost module, membership succeeds
// exactly when the proof is the sentinel, the path has two elements and the chain's own IBC store holds exactly the
// claimed value under path[1]; non-membership exactly when that key is absent.
func HarnessMembershipIsStoreRead() {
	verif.NoPanic()
	w := models.NewWorld()
	w.SetParams()
	path, n := symPath()
	proof, value := verif.Bytes("proof"), verif.Bytes("value")
	h := corekit.Height("height")
	var stored []byte
	if n == 2 {
		stored = verif.StGet(w.Ctx, "ibc", path.KeyPath[1])
	}
	snap := verif.StSnapshot(w.Ctx, "ibc")
	errM := w.IBC.ClientKeeper.VerifyMembership(w.Ctx, exported.LocalhostClientID, h, verif.Uint64("delayT"), verif.Uint64("delayB"), proof, path, value)
	errN := w.IBC.ClientKeeper.VerifyNonMembership(w.Ctx, exported.LocalhostClientID, h, verif.Uint64("delayT2"), verif.Uint64("delayB2"), proof, path)
	verif.Reach("returned")
	sentinel := bytes.Equal(proof, localhost.SentinelProof)
	wantM := sentinel && n == 2 && len(stored) != 0 && bytes.Equal(stored, value)
	wantN := sentinel && n == 2 && len(stored) == 0
	verif.Assert((errM == nil) == wantM, "membership succeeds iff sentinel proof, 2-element path and the own store holds exactly the value at path[1]")
	verif.Assert((errN == nil) == wantN, "non-membership succeeds iff sentinel proof, 2-element path and the key is absent from the own store")
	verif.Assert(!(errM == nil && errN == nil), "membership and non-membership never both verify")
	verif.Assert(verif.StEqual(w.Ctx, "ibc", snap), "verification does not write")
	if errM == nil {
		verif.Reach("membership verified")
	}
	if errN == nil {
		verif.Reach("non-membership verified")
	}
}

// HarnessLocalhostIsStateless: the localhost client cannot be created, updated, upgraded or recovered, and is always Active.
func HarnessLocalhostIsStateless() {
	w := models.NewWorld()
	w.SetParams()
	lc, err := w.IBC.ClientKeeper.Route(w.Ctx, exported.LocalhostClientID)
	verif.Assert(err == nil, "the localhost client is routable")
	if err != nil {
		return
	}
	snap := verif.StSnapshot(w.Ctx, "ibc")
	verif.Assert(lc.Initialize(w.Ctx, exported.LocalhostClientID, verif.Bytes("cs"), verif.Bytes("cons")) != nil, "cannot be initialised")
	verif.Assert(lc.VerifyClientMessage(w.Ctx, exported.LocalhostClientID, nil) != nil, "accepts no client messages")
	verif.Assert(lc.RecoverClient(w.Ctx, exported.LocalhostClientID, verif.String("substitute")) != nil, "cannot be recovered")
	verif.Assert(lc.VerifyUpgradeAndUpdateState(w.Ctx, exported.LocalhostClientID, nil, nil, nil, nil) != nil, "cannot be upgraded")
	verif.Assert(lc.Status(w.Ctx, exported.LocalhostClientID) == exported.Active, "is always Active")
	lh := lc.LatestHeight(w.Ctx, exported.LocalhostClientID)
	self := clienttypes.GetSelfHeight(w.Ctx)
	verif.Assert(lh.GetRevisionNumber() == self.RevisionNumber && lh.GetRevisionHeight() == self.RevisionHeight, "its latest height is the chain's own height")
	verif.Assert(verif.StEqual(w.Ctx, "ibc", snap), "none of this writes state")
	verif.Reach("end")
}
