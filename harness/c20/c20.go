// Package c20: Tendermint consensus states are never overwritten. One step of the client's update path
// (CheckForMisbehaviour, then UpdateState unless misbehaviour was found, as 02-client's UpdateClient does) is run from a
// client store holding a bounded number of arbitrary consensus states, with an arbitrary header.
package c20

import (
	"bytes"
	"time"
	_ "unsafe"

	cmtproto "github.com/cometbft/cometbft/proto/tendermint/types"

	"github.com/cosmos/cosmos-sdk/codec"
	storetypes "github.com/cosmos/cosmos-sdk/store/v2/types"
	sdk "github.com/cosmos/cosmos-sdk/types"

	clienttypes "github.com/cosmos/ibc-go/v11/modules/core/02-client/types"
	commitmenttypes "github.com/cosmos/ibc-go/v11/modules/core/23-commitment/types"
	host "github.com/cosmos/ibc-go/v11/modules/core/24-host"
	"github.com/cosmos/ibc-go/v11/modules/core/exported"
	ibctm "github.com/cosmos/ibc-go/v11/modules/light-clients/07-tendermint"

	"verifharness/models"
	"verifharness/verif"
)

//go:linkname setConsensusState github.com/cosmos/ibc-go/v11/modules/light-clients/07-tendermint.setConsensusState
func setConsensusState(clientStore storetypes.KVStore, cdc codec.BinaryCodec, consensusState *ibctm.ConsensusState, height exported.Height)

//go:linkname setConsensusMetadataWithValues github.com/cosmos/ibc-go/v11/modules/light-clients/07-tendermint.setConsensusMetadataWithValues
func setConsensusMetadataWithValues(clientStore storetypes.KVStore, height, processedHeight exported.Height, processedTime uint64)

const store = "client"

type world struct {
	ctx     sdk.Context
	st      storetypes.KVStore
	heights []clienttypes.Height
	states  []*ibctm.ConsensusState
}

func symTime(tag string) time.Time {
	ns := verif.Int64(tag + ".nsec")
	sec := verif.Int64(tag + ".sec")
	verif.Assume(ns >= 0 && ns < 1_000_000_000 && sec >= 0 && sec < 253402300800) // protobuf's timestamp range, after 1970
	return time.Unix(sec, ns).UTC()
}

func setup(n int) *world {
	verif.LightDecimals(true)
	verif.RegisterIface("github.com/cosmos/ibc-go/v11/modules/core/exported.ConsensusState", &ibctm.ConsensusState{})
	verif.RegisterIface("github.com/cosmos/ibc-go/v11/modules/core/exported.ClientState", &ibctm.ClientState{})
	verif.RegisterIface("", &ibctm.ConsensusState{})
	verif.RegisterIface("", &ibctm.ClientState{})
	w := &world{ctx: verif.NewCtx()}
	verif.StClosePrefix(w.ctx, store, []byte(ibctm.KeyIterateConsensusStatePrefix))
	verif.StClosePrefix(w.ctx, store, []byte(host.KeyConsensusStatePrefix+"/"))
	w.st = models.KVStoreAdapter(models.Store{Ctx: w.ctx, Name: store})
	for i := 0; i < n; i++ {
		tag := "cs" + string(rune('0'+i))
		h := clienttypes.NewHeight(verif.Uint64(tag+".rev"), verif.Uint64(tag+".height"))
		for _, o := range w.heights {
			verif.Assume(!h.EQ(o))
		}
		cs := &ibctm.ConsensusState{Timestamp: symTime(tag), Root: commitmenttypes.NewMerkleRoot(verif.Bytes(tag + ".root")), NextValidatorsHash: verif.Bytes(tag + ".valhash")}
		verif.Assume(len(cs.Root.Hash) > 0)
		setConsensusState(w.st, models.Codec{}, cs, h)
		setConsensusMetadataWithValues(w.st, h, clienttypes.NewHeight(verif.Uint64(tag+".prev"), verif.Uint64(tag+".pheight")), verif.Uint64(tag+".ptime"))
		w.heights, w.states = append(w.heights, h), append(w.states, cs)
	}
	return w
}

// symHeader is a header of the host-format chain id with arbitrary height, time, app hash and next validators hash.
func symHeader(ctx sdk.Context) *ibctm.Header {
	h := verif.Int64("header.height")
	verif.Assume(h > 0)
	return &ibctm.Header{SignedHeader: &cmtproto.SignedHeader{Header: &cmtproto.Header{
		ChainID: ctx.ChainID(), Height: h, Time: symTime("header"), AppHash: verif.Bytes("header.appHash"), NextValidatorsHash: verif.Bytes("header.nextValsHash"),
	}}}
}

func same(a, b *ibctm.ConsensusState) bool {
	return a.Timestamp.Equal(b.Timestamp) && bytes.Equal(a.Root.Hash, b.Root.Hash) && bytes.Equal(a.NextValidatorsHash, b.NextValidatorsHash)
}

// HarnessUpdateNeverOverwrites: whatever header is processed, every stored consensus state keeps its bytes (unless it is
// the expired oldest one, which pruning may remove); a header for a stored height with different contents is misbehaviour.
func HarnessUpdateNeverOverwrites() {
	w := setup(verif.Len("stored", 0, 2))
	client := &ibctm.ClientState{ChainId: w.ctx.ChainID(), TrustingPeriod: 14 * 24 * time.Hour, // fixed: expiry arithmetic is C22's subject
		LatestHeight: clienttypes.NewHeight(verif.Uint64("latest.rev"), verif.Uint64("latest.height"))}
	header := symHeader(w.ctx)
	hh := header.GetHeight().(clienttypes.Height)
	before := make([][]byte, len(w.heights))
	for i, h := range w.heights {
		before[i] = verif.StGet(w.ctx, store, host.ConsensusStateKey(h))
	}
	misbehaviour := client.CheckForMisbehaviour(w.ctx, models.Codec{}, w.st, header)
	if misbehaviour {
		verif.Reach("misbehaviour: client frozen instead of updated")
		client.UpdateStateOnMisbehaviour(w.ctx, models.Codec{}, w.st, header)
	} else {
		verif.Reach("no misbehaviour: state updated")
		client.UpdateState(w.ctx, models.Codec{}, w.st, header)
	}
	oldest := 0
	for i, h := range w.heights {
		if h.LT(w.heights[oldest]) {
			oldest = i
		}
	}
	for i, h := range w.heights {
		after := verif.StGet(w.ctx, store, host.ConsensusStateKey(h))
		if len(after) == 0 {
			verif.Reach("a stored consensus state was removed")
			verif.Assert(i == oldest && client.IsExpired(w.states[i].Timestamp, w.ctx.BlockTime()) && !misbehaviour, "only the expired oldest consensus state is ever removed, and only by an update")
			continue
		}
		verif.Assert(bytes.Equal(after, before[i]), "a stored consensus state is never overwritten")
		if h.EQ(hh) && !same(w.states[i], header.ConsensusState()) {
			verif.Reach("conflicting header for a stored height")
			verif.Assert(misbehaviour, "a header for a stored height with a different consensus state is misbehaviour")
		}
	}
}
