// Package c16: store key spaces never collide and clients stay in their namespace.
package c16

import (
	"bytes"

	host "github.com/cosmos/ibc-go/v11/modules/core/24-host"
	hostv2 "github.com/cosmos/ibc-go/v11/modules/core/24-host/v2"

	"verifharness/verif"
)

const nV1Kinds = 9

func v1Key(kind int, port, channel string, seq uint64) []byte {
	switch kind {
	case 0:
		return host.ChannelKey(port, channel)
	case 1:
		return host.NextSequenceRecvKey(port, channel)
	case 2:
		return host.NextSequenceAckKey(port, channel)
	case 3:
		return host.PacketCommitmentKey(port, channel, seq)
	case 4:
		return host.PacketAcknowledgementKey(port, channel, seq)
	case 5:
		return host.PacketReceiptKey(port, channel, seq)
	case 6:
		return host.RecvStartSequenceKey(port, channel)
	case 7:
		return hostv2.NextSequenceSendKey(channel)
	}
	return host.ConnectionKey(channel)
}

func usesPort(kind int) bool { return kind <= 6 }
func usesSeq(kind int) bool  { return kind >= 3 && kind <= 5 }

func validPort(s string) bool    { return host.PortIdentifierValidator(s) == nil }
func validChannel(s string) bool { return host.ChannelIdentifierValidator(s) == nil }
func validClient(s string) bool  { return host.ClientIdentifierValidator(s) == nil }

// HarnessV1KeysInjective: for every pair of v1 key kinds and all valid identifiers, equal keys imply the same kind,
// the same identifiers and the same sequence.
func HarnessV1KeysInjective() {
	verif.NoPanic()
	k1, k2 := verif.Choice("kind1", nV1Kinds), verif.Choice("kind2", nV1Kinds)
	verif.Assume(k1 <= k2)
	p1, c1, s1 := verif.String("port1"), verif.String("chan1"), verif.Uint64("seq1")
	p2, c2, s2 := verif.String("port2"), verif.String("chan2"), verif.Uint64("seq2")
	verif.Assume(validPort(p1) && validPort(p2) && validChannel(c1) && validChannel(c2))
	a, b := v1Key(k1, p1, c1, s1), v1Key(k2, p2, c2, s2)
	verif.Reach("built")
	if k1 != k2 {
		verif.Assert(!bytes.Equal(a, b), "keys of different kinds never coincide")
		return
	}
	if bytes.Equal(a, b) {
		verif.Assert(c1 == c2, "equal keys imply equal channel / connection identifier")
		if usesPort(k1) {
			verif.Assert(p1 == p2, "equal keys imply equal port")
		}
		if usesSeq(k1) {
			verif.Assert(s1 == s2, "equal keys imply equal sequence")
		}
	}
}

func v2Key(kind int, id string, seq uint64) []byte {
	switch kind {
	case 0:
		return hostv2.PacketCommitmentKey(id, seq)
	case 1:
		return hostv2.PacketReceiptKey(id, seq)
	}
	return hostv2.PacketAcknowledgementKey(id, seq)
}

// HarnessV2KeysInjective: v2 packet keys (identifier ‖ kind byte ‖ 8-byte sequence) for valid identifiers: equal keys
// imply the same kind, identifier and sequence.
func HarnessV2KeysInjective() {
	verif.NoPanic()
	k1, k2 := verif.Choice("kind1", 3), verif.Choice("kind2", 3)
	verif.Assume(k1 <= k2)
	id1, id2 := verif.String("id1"), verif.String("id2")
	s1, s2 := verif.Uint64("seq1"), verif.Uint64("seq2")
	verif.Assume(validClient(id1) && validClient(id2))
	a, b := v2Key(k1, id1, s1), v2Key(k2, id2, s2)
	verif.Reach("built")
	if bytes.Equal(a, b) {
		verif.Assert(k1 == k2, "v2 keys of different kinds never coincide")
		verif.Assert(id1 == id2, "equal v2 keys imply equal identifier")
		verif.Assert(s1 == s2, "equal v2 keys imply equal sequence")
	}
}

// HarnessV1V2Disjoint: no v1 key equals a v2 packet key.
func HarnessV1V2Disjoint() {
	verif.NoPanic()
	k1 := verif.Choice("kind1", nV1Kinds)
	k2 := verif.Choice("kind2", 3)
	p1, c1, s1 := verif.String("port1"), verif.String("chan1"), verif.Uint64("seq1")
	id2, s2 := verif.String("id2"), verif.Uint64("seq2")
	verif.Assume(validPort(p1) && validChannel(c1) && validClient(id2))
	verif.Assert(!bytes.Equal(v1Key(k1, p1, c1, s1), v2Key(k2, id2, s2)), "v1 keys and v2 packet keys never coincide")
	verif.Reach("end")
}

// HarnessClientNamespace: a key written through client X's store never lies under client Y's prefix (X != Y, both valid).
func HarnessClientNamespace() {
	verif.NoPanic()
	x, y := verif.String("clientX"), verif.String("clientY")
	verif.Assume(validClient(x) && validClient(y) && x != y)
	path := verif.Bytes("path")
	full := host.FullClientKey(x, path)
	prefixY := host.FullClientKey(y, nil)
	verif.Reach("built")
	verif.Assert(!bytes.HasPrefix(full, prefixY), "a key in client X's store never has client Y's store prefix")
	verif.Assert(bytes.HasPrefix(full, host.FullClientKey(x, nil)), "and always has its own prefix")
}
