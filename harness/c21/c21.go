// Package c21: a Tendermint client's status is exact and gates every use of the client.
package c21

import (
	"time"
	_ "unsafe"

	"github.com/cosmos/cosmos-sdk/codec"
	storetypes "github.com/cosmos/cosmos-sdk/store/v2/types"
	sdk "github.com/cosmos/cosmos-sdk/types"

	clienttypes "github.com/cosmos/ibc-go/v11/modules/core/02-client/types"
	commitmenttypes "github.com/cosmos/ibc-go/v11/modules/core/23-commitment/types"
	commitmenttypesv2 "github.com/cosmos/ibc-go/v11/modules/core/23-commitment/types/v2"
	"github.com/cosmos/ibc-go/v11/modules/core/exported"
	ibctm "github.com/cosmos/ibc-go/v11/modules/light-clients/07-tendermint"

	"verifharness/models"
	"verifharness/verif"
)

//go:linkname status github.com/cosmos/ibc-go/v11/modules/light-clients/07-tendermint.ClientState.status
func status(cs ibctm.ClientState, ctx sdk.Context, clientStore storetypes.KVStore, cdc codec.BinaryCodec) exported.Status

//go:linkname setConsensusState github.com/cosmos/ibc-go/v11/modules/light-clients/07-tendermint.setConsensusState
func setConsensusState(clientStore storetypes.KVStore, cdc codec.BinaryCodec, consensusState *ibctm.ConsensusState, height exported.Height)

// HarnessStatusExact: status() of an arbitrary Tendermint client state over a client store that holds (or not) an
// arbitrary consensus state at the latest height, at an arbitrary block time.
func HarnessStatusExact() {
	verif.LightDecimals(true)
	verif.RegisterIface("github.com/cosmos/ibc-go/v11/modules/core/exported.ConsensusState", &ibctm.ConsensusState{})
	verif.RegisterIface("", &ibctm.ConsensusState{})
	ctx := verif.NewCtx()
	st := models.KVStoreAdapter(models.Store{Ctx: ctx, Name: "client"})
	cs := ibctm.ClientState{
		TrustingPeriod: time.Duration(verif.Int64("trustingSeconds")) * time.Second,
		FrozenHeight:   clienttypes.NewHeight(verif.Uint64("frozen.rev"), verif.Uint64("frozen.height")),
		LatestHeight:   clienttypes.NewHeight(verif.Uint64("latest.rev"), verif.Uint64("latest.height")),
	}
	verif.Assume(verif.Int64("trustingSeconds") > 0 && verif.Int64("trustingSeconds") < 1_000_000_000) // up to ~31 years
	stored := verif.Bool("latestConsensusStateStored")
	sec := verif.Int64("consensus.sec")
	verif.Assume(sec >= 0 && sec < 253402300800)
	ts := time.Unix(sec, 0).UTC()
	if stored {
		setConsensusState(st, models.Codec{}, &ibctm.ConsensusState{Timestamp: ts, Root: commitmenttypes.NewMerkleRoot([]byte("root")), NextValidatorsHash: verif.Bytes("valhash")}, cs.LatestHeight)
	} else {
		verif.Assume(len(verif.StGet(ctx, "client", []byte("consensusStates/"+cs.LatestHeight.String()))) == 0)
	}
	got := status(cs, ctx, st, models.Codec{})
	verif.Reach("status computed")
	frozen := cs.FrozenHeight.RevisionNumber != 0 || cs.FrozenHeight.RevisionHeight != 0
	// expired: block time >= consensus timestamp + trusting period (whole seconds on both sides plus the block's nanoseconds)
	expired := !stored || !ts.Add(cs.TrustingPeriod).After(ctx.BlockTime())
	switch {
	case frozen:
		verif.Assert(got == exported.Frozen, "a frozen client is Frozen")
	case expired:
		verif.Assert(got == exported.Expired, "an unfrozen client without a live latest consensus state is Expired")
	default:
		verif.Assert(got == exported.Active, "an unfrozen client with an unexpired latest consensus state is Active")
	}
}

// gate runs one client-keeper entry point against the arbitrary light client and checks that a client that does not
// report Active is refused before any verification or state change is requested from it.
func gate(run func(w *models.World) error) {
	w := models.NewWorld()
	w.SetParams()
	err := run(w)
	verif.Reach("returned")
	if verif.CallCount("Status") == 0 {
		verif.Reach("not routed")
		verif.Assert(err != nil, "an unroutable client is refused")
		return
	}
	if verif.CallArgString("Status", 0, 1) != string(exported.Active) {
		verif.Reach("client not active")
		verif.Assert(err != nil, "a client that is not Active is refused")
		n := verif.CallCount("VerifyClientMessage") + verif.CallCount("CheckForMisbehaviour") + verif.CallCount("UpdateState") + verif.CallCount("UpdateStateOnMisbehaviour") +
			verif.CallCount("VerifyMembership") + verif.CallCount("VerifyNonMembership") + verif.CallCount("VerifyUpgradeAndUpdateState")
		verif.Assert(n == 0, "nothing is verified or updated through a client that is not Active")
	} else {
		verif.Reach("client active")
	}
}

func symPath() commitmenttypesv2.MerklePath {
	return commitmenttypesv2.NewMerklePath(verif.Bytes("path0"), verif.Bytes("path1"))
}

// HarnessUpdateGated / HarnessUpgradeGated / HarnessMembershipGated / HarnessNonMembershipGated: 02-client's entry points.
func HarnessUpdateGated() {
	gate(func(w *models.World) error {
		return w.IBC.ClientKeeper.UpdateClient(w.Ctx, models.ClientID, &ibctm.Header{})
	})
}

func HarnessUpgradeGated() {
	gate(func(w *models.World) error {
		return w.IBC.ClientKeeper.UpgradeClient(w.Ctx, models.ClientID, verif.Bytes("newClient"), verif.Bytes("newCons"), verif.Bytes("proofClient"), verif.Bytes("proofCons"))
	})
}

func HarnessMembershipGated() {
	gate(func(w *models.World) error {
		return w.IBC.ClientKeeper.VerifyMembership(w.Ctx, models.ClientID, clienttypes.NewHeight(verif.Uint64("h.rev"), verif.Uint64("h.height")), verif.Uint64("delayTime"), verif.Uint64("delayBlocks"), verif.Bytes("proof"), symPath(), verif.Bytes("value"))
	})
}

func HarnessNonMembershipGated() {
	gate(func(w *models.World) error {
		return w.IBC.ClientKeeper.VerifyNonMembership(w.Ctx, models.ClientID, clienttypes.NewHeight(verif.Uint64("h.rev"), verif.Uint64("h.height")), verif.Uint64("delayTime"), verif.Uint64("delayBlocks"), verif.Bytes("proof"), symPath())
	})
}

// HarnessLatestHeightMonotone: UpdateState never lowers the client's latest height.
func HarnessLatestHeightMonotone() {
	verif.LightDecimals(true)
	verif.RegisterIface("github.com/cosmos/ibc-go/v11/modules/core/exported.ConsensusState", &ibctm.ConsensusState{})
	verif.RegisterIface("github.com/cosmos/ibc-go/v11/modules/core/exported.ClientState", &ibctm.ClientState{})
	verif.RegisterIface("", &ibctm.ConsensusState{})
	verif.RegisterIface("", &ibctm.ClientState{})
	ctx := verif.NewCtx()
	verif.StClosePrefix(ctx, "client", []byte(ibctm.KeyIterateConsensusStatePrefix))
	st := models.KVStoreAdapter(models.Store{Ctx: ctx, Name: "client"})
	cs := &ibctm.ClientState{ChainId: ctx.ChainID(), TrustingPeriod: 14 * 24 * time.Hour, LatestHeight: clienttypes.NewHeight(verif.Uint64("latest.rev"), verif.Uint64("latest.height"))}
	before := cs.LatestHeight
	h := verif.Int64("header.height")
	verif.Assume(h > 0)
	header := models.TMHeader(ctx.ChainID(), h, verif.Int64("header.sec"), verif.Bytes("header.appHash"), verif.Bytes("header.nextValsHash"))
	cs.UpdateState(ctx, models.Codec{}, st, header)
	verif.Reach("updated")
	verif.Assert(cs.LatestHeight.GTE(before), "the latest height never decreases")
	verif.Assert(cs.LatestHeight.EQ(before) || cs.LatestHeight.EQ(header.GetHeight()), "the latest height only ever moves to the header's height")
}
