// Package c09: failed receives discard application state but keep receipt and acknowledgement.
package c09

import (
	"bytes"

	chantypes "github.com/cosmos/ibc-go/v11/modules/core/04-channel/types"

	"verifharness/corekit"
	"verifharness/verif"
)

// HarnessRecvAppStateAtomicity: the application callback performs up to one arbitrary write to its store through
// the context it is given and returns an arbitrary result (success ack / error ack / async).
func HarnessRecvAppStateAtomicity() {
	s := corekit.RecvSide()
	w, p := s.W, s.P
	w.App.Writes = 1
	verif.Assume(s.Ch.Ordering == chantypes.UNORDERED)
	snapApp := verif.StSnapshot(w.Ctx, "app")
	ackBefore, _ := w.IBC.ChannelKeeper.GetPacketAcknowledgement(w.Ctx, p.DestinationPort, p.DestinationChannel, p.Sequence)
	res, err := w.IBC.RecvPacket(w.Ctx, s.RecvMsg())
	verif.Reach("returned")
	if err != nil || res.Result != chantypes.SUCCESS {
		return
	}
	verif.Reach("processed")
	verif.Assert(verif.CallCount("OnRecvPacket") == 1, "callback ran once")
	wrote := verif.CallCount("app.recv.write") == 1
	_, receipt := w.IBC.ChannelKeeper.GetPacketReceipt(w.Ctx, p.DestinationPort, p.DestinationChannel, p.Sequence)
	verif.Assert(receipt, "the receipt persists whatever the application returned")
	ackAfter, _ := w.IBC.ChannelKeeper.GetPacketAcknowledgement(w.Ctx, p.DestinationPort, p.DestinationChannel, p.Sequence)
	appUnchanged := verif.StEqual(w.Ctx, "app", snapApp)
	if len(ackAfter) != 0 && len(ackBefore) == 0 {
		verif.Reach("acknowledgement written")
	}
	if wrote {
		k, v := verif.CallArgBytes("app.recv.write", 0, 0), verif.CallArgBytes("app.recv.write", 0, 1)
		persisted := bytes.Equal(verif.StGet(w.Ctx, "app", k), v)
		// result kind is recorded by the model: 0 success ack, 1 error ack, 2 async
		kind := verif.CallArgUint64("OnRecvPacket.result", 0, 0)
		if kind == 1 {
			verif.Reach("error acknowledgement")
			verif.Assert(appUnchanged, "an error acknowledgement discards the application's writes")
			verif.Assert(bytes.Equal(ackAfter, chantypes.CommitAcknowledgement(verif.CallArgBytes("OnRecvPacket.result", 0, 1))), "the error acknowledgement itself is stored")
		} else {
			verif.Reach("success or async")
			verif.Assert(persisted, "application writes persist for success and asynchronous results")
			if kind == 2 {
				verif.Assert(bytes.Equal(ackAfter, ackBefore), "async: no acknowledgement is written by the receive")
			} else {
				verif.Assert(bytes.Equal(ackAfter, chantypes.CommitAcknowledgement(verif.CallArgBytes("OnRecvPacket.result", 0, 1))), "the success acknowledgement is stored")
			}
		}
	}
}
