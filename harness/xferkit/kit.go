// Package xferkit wires the real ICS-20 transfer keeper and its v1/v2 IBC modules to the bank/auth models over
// arbitrary stores, and provides the symbolic inputs and observations shared by the transfer harnesses (C30-C32, C49).
package xferkit

import (
	sdkmath "cosmossdk.io/math"

	sdk "github.com/cosmos/cosmos-sdk/types"

	transfer "github.com/cosmos/ibc-go/v11/modules/apps/transfer"
	"github.com/cosmos/ibc-go/v11/modules/apps/transfer/keeper"
	"github.com/cosmos/ibc-go/v11/modules/apps/transfer/types"
	transferv2 "github.com/cosmos/ibc-go/v11/modules/apps/transfer/v2"
	clienttypes "github.com/cosmos/ibc-go/v11/modules/core/02-client/types"
	channeltypes "github.com/cosmos/ibc-go/v11/modules/core/04-channel/types"
	"github.com/cosmos/ibc-go/v11/modules/core/exported"

	"verifharness/models"
	"verifharness/verif"
)

// ChannelKeeper is an arbitrary channel keeper / ICS4 wrapper: SendPacket logs what it is given and returns an arbitrary
// sequence or an error; channel lookups return arbitrary results.
type ChannelKeeper struct{ X int }

func (c *ChannelKeeper) SendPacket(ctx sdk.Context, sourcePort, sourceChannel string, timeoutHeight clienttypes.Height, timeoutTimestamp uint64, data []byte) (uint64, error) {
	verif.LogCall("ics4.SendPacket", sourcePort, sourceChannel, data)
	if verif.Bool("ics4.send.fails") {
		return 0, models.ErrInsufficientFunds
	}
	return verif.Uint64("ics4.send.sequence"), nil
}

func (c *ChannelKeeper) WriteAcknowledgement(ctx sdk.Context, packet exported.PacketI, ack exported.Acknowledgement) error {
	verif.LogCall("ics4.WriteAcknowledgement")
	return nil
}

func (c *ChannelKeeper) GetAppVersion(ctx sdk.Context, portID, channelID string) (string, bool) {
	return types.V1, true
}

func (c *ChannelKeeper) GetChannel(ctx sdk.Context, srcPort, srcChan string) (channeltypes.Channel, bool) {
	if c.X == 2 && !verif.Bool("chan.found") {
		return channeltypes.Channel{}, false
	}
	return channeltypes.Channel{State: channeltypes.OPEN, Counterparty: channeltypes.Counterparty{PortId: verif.String("chan.cpPort"), ChannelId: verif.String("chan.cpChan")}}, true
}

func (c *ChannelKeeper) GetNextSequenceSend(ctx sdk.Context, portID, channelID string) (uint64, bool) {
	return verif.Uint64("chan.nextSeqSend"), true
}

func (c *ChannelKeeper) GetAllChannelsWithPortPrefix(ctx sdk.Context, portPrefix string) []channeltypes.IdentifiedChannel {
	return nil
}
func (c *ChannelKeeper) HasChannel(ctx sdk.Context, portID, channelID string) bool {
	return verif.Bool("chan.has")
}

// World is one chain's transfer application over arbitrary bank and transfer stores.
type World struct {
	XferStore string
	Ctx       sdk.Context
	K         *keeper.Keeper
	Bank      models.Bank
	Chan      *ChannelKeeper
	V1        *transfer.IBCModule
	V2        transferv2.IBCModule
}

// New builds the keeper through the real constructor and writes arbitrary module parameters.
func New() *World { return NewNamed("") }

// NewNamed builds a chain whose transfer and bank stores are "transfer"+suffix and "bank"+suffix over a fresh context.
func NewNamed(suffix string) *World {
	verif.RegisterType(&sdk.IntProto{})
	verif.RegisterType(&types.Params{})
	verif.RegisterType(&types.Denom{})
	const ackResponse = "github.com/cosmos/ibc-go/v11/modules/core/04-channel/types.isAcknowledgement_Response"
	verif.RegisterIface(ackResponse, &channeltypes.Acknowledgement_Result{})
	verif.RegisterIface(ackResponse, &channeltypes.Acknowledgement_Error{})
	w := &World{XferStore: "transfer" + suffix, Bank: models.Bank{Store: "bank" + suffix}, Ctx: verif.NewCtx(), Chan: &ChannelKeeper{X: 1}}
	models.SetBlockedCtx(w.Ctx)
	w.K = keeper.NewKeeper(models.Codec{}, models.AddrCodec{X: 1}, models.StoreService{Name: w.XferStore}, w.Chan, nil, models.Auth{X: 1}, w.Bank, models.Authority)
	w.V1 = transfer.NewIBCModule(w.K)
	w.V2 = transferv2.NewIBCModule(w.K)
	w.K.SetParams(w.Ctx, types.Params{SendEnabled: verif.Bool("params.sendEnabled"), ReceiveEnabled: verif.Bool("params.receiveEnabled")})
	return w
}

// SymDenom is an arbitrary denomination with 0..maxHops trace hops of arbitrary port and channel identifiers and an
// arbitrary base; a native denomination (no hops) is one the bank accepts (sdk.ValidateDenom), as every token that
// exists on the chain is.
func SymDenom(tag string, maxHops int) types.Denom {
	n := verif.Len(tag+".hops", 0, maxHops)
	d := types.Denom{Base: verif.String(tag + ".base")}
	if n == 0 {
		verif.Assume(sdk.ValidateDenom(d.Base) == nil)
	}
	for i := 0; i < n; i++ {
		s := tag + ".hop" + string(rune('0'+i))
		d.Trace = append(d.Trace, types.Hop{PortId: verif.String(s + ".port"), ChannelId: verif.String(s + ".channel")})
	}
	return d
}

// SymAmount is an arbitrary strictly positive amount and its decimal string.
func SymAmount(tag string) (sdkmath.Int, string) {
	a := verif.SdkInt(tag)
	verif.Assume(a.IsPositive())
	return a, a.String()
}

// Account is a member of the account pool: its bech32 string and its address bytes.
type Account struct {
	Bech32 string
	Addr   sdk.AccAddress
}

func SymAccount(tag string, n int) Account {
	s := models.SymAccountN(tag, n)
	return Account{Bech32: s, Addr: sdk.MustAccAddressFromBech32(s)}
}

// Obs is a snapshot of the observables of one (account, escrow account, denomination) triple.
type Obs struct {
	Account, Escrow, Module, Supply, TotalEscrow sdkmath.Int
}

// Observe reads the balances of acct, of the escrow account of (port, channel) and of the transfer module account in
// denom, the supply of denom and the tracked total escrow of denom.
func (w *World) Observe(acct sdk.AccAddress, port, channel, denom string) Obs {
	return Obs{
		Account:     w.Bank.Balance(w.Ctx, acct, denom),
		Escrow:      w.Bank.Balance(w.Ctx, types.GetEscrowAddress(port, channel), denom),
		Module:      w.Bank.Balance(w.Ctx, models.ModuleAddress(types.ModuleName), denom),
		Supply:      w.Bank.Supply(w.Ctx, denom),
		TotalEscrow: w.TotalEscrow(denom),
	}
}

// TotalEscrow reads the tracked total escrow of denom (stored values are non-negative: SetTotalEscrowForDenom refuses others).
func (w *World) TotalEscrow(denom string) sdkmath.Int {
	bz := verif.StGet(w.Ctx, w.XferStore, types.TotalEscrowForDenomKey(denom))
	if len(bz) == 0 {
		return sdkmath.ZeroInt()
	}
	var ip sdk.IntProto
	verif.Decode(bz, &ip)
	verif.Assume(!ip.Int.IsNegative())
	return ip.Int
}

// BankKeys are the bank-store keys an operation on (acct, escrow(port, channel), denom) may touch.
func (w *World) BankKeys(acct sdk.AccAddress, port, channel, denom string) [][]byte {
	return [][]byte{
		models.BalanceKey(acct, denom),
		models.BalanceKey(types.GetEscrowAddress(port, channel), denom),
		models.BalanceKey(models.ModuleAddress(types.ModuleName), denom),
		models.SupplyKey(denom),
	}
}

// DistinctAccounts assumes the escrow account of (port, channel), the module account and acct are three different
// addresses (a SHA-256 collision otherwise) .
func DistinctAccounts(acct sdk.AccAddress, port, channel string) {
	esc := types.GetEscrowAddress(port, channel)
	mod := sdk.AccAddress(models.ModuleAddress(types.ModuleName))
	verif.Assume(verif.And(!esc.Equals(acct), verif.And(!esc.Equals(mod), !mod.Equals(acct))))
}

// DenomKey is the transfer-store key under which the trace of denom is recorded.
func (w *World) DenomKey(denom types.Denom) []byte {
	return append(append([]byte{}, types.DenomKey...), denom.Hash()...)
}
