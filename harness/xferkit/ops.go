package xferkit

import (
	"strings"

	sdkmath "cosmossdk.io/math"

	sdk "github.com/cosmos/cosmos-sdk/types"

	"github.com/cosmos/ibc-go/v11/modules/apps/transfer/types"
	clienttypes "github.com/cosmos/ibc-go/v11/modules/core/02-client/types"
	channeltypes "github.com/cosmos/ibc-go/v11/modules/core/04-channel/types"
	channeltypesv2 "github.com/cosmos/ibc-go/v11/modules/core/04-channel/v2/types"

	"verifharness/models"
	"verifharness/verif"
)

// KeeperSend: one keeper.SendTransfer step from an arbitrary state with an arbitrary token (0..maxHops hops), sender,
// source port and channel; the contract is asserted when the send is accepted.
func KeeperSend(a Aspect, maxHops int) {
	w := New()
	port, channel := verif.String("port"), verif.String("channel")
	denom := SymDenom("denom", maxHops)
	amt, amtStr := SymAmount("amount")
	sender := SymAccount("sender", 2)
	DistinctAccounts(sender.Addr, port, channel)
	coin := sdk.Coin{Denom: denom.IBCDenom(), Amount: amt}
	pre := w.Observe(sender.Addr, port, channel, coin.Denom)
	bs, xs := verif.StSnapshot(w.Ctx, w.Bank.Store), verif.StSnapshot(w.Ctx, w.XferStore)
	err := w.K.SendTransfer(w.Ctx, port, channel, types.Token{Denom: denom, Amount: amtStr}, sender.Addr)
	if err != nil {
		verif.Reach("send refused")
		return
	}
	verif.Reach("sent")
	w.SendContract(a, pre, bs, xs, sender.Addr, port, channel, denom, coin)
}

// KeeperRecv: one keeper.OnRecvPacket step from an arbitrary state with an arbitrary token (0..maxHops hops), receiver
// and arbitrary source and destination ports and channels.
func KeeperRecv(a Aspect, maxHops int) {
	verif.AbstractIdentifiers(true)
	w := New()
	srcPort, srcChan := verif.String("sourcePort"), verif.String("sourceChannel")
	dstPort, dstChan := verif.String("destPort"), verif.String("destChannel")
	denom := SymDenom("denom", maxHops)
	amt, amtStr := SymAmount("amount")
	receiver := SymAccount("receiver", 2)
	DistinctAccounts(receiver.Addr, dstPort, dstChan)
	memo := verif.String("memo")
	verif.Assume(len(memo) <= 16) // the memo plays no part in the accounting; longer memos (up to the 32 KiB limit) are outside the bound
	data := types.InternalTransferRepresentation{Token: types.Token{Denom: denom, Amount: amtStr}, Sender: models.Relayer, Receiver: receiver.Bech32, Memo: memo}
	exp := ExpectedRecv(denom, srcPort, srcChan, dstPort, dstChan)
	pre := w.Observe(receiver.Addr, dstPort, dstChan, exp.Local.IBCDenom())
	bs, xs := verif.StSnapshot(w.Ctx, w.Bank.Store), verif.StSnapshot(w.Ctx, w.XferStore)
	err := w.K.OnRecvPacket(w.Ctx, data, srcPort, srcChan, dstPort, dstChan)
	if err != nil {
		verif.Reach("receive refused")
		return
	}
	verif.Reach("received")
	w.RecvContract(a, pre, bs, xs, receiver.Addr, dstPort, dstChan, exp, amt)
}

// KeeperRefund: one keeper.OnTimeoutPacket / OnAcknowledgementPacket(error) step from an arbitrary state.
func KeeperRefund(a Aspect, maxHops int) {
	w := New()
	port, channel := verif.String("port"), verif.String("channel")
	denom := SymDenom("denom", maxHops)
	amt, amtStr := SymAmount("amount")
	sender := SymAccount("sender", 2)
	DistinctAccounts(sender.Addr, port, channel)
	data := types.InternalTransferRepresentation{Token: types.Token{Denom: denom, Amount: amtStr}, Sender: sender.Bech32, Receiver: verif.String("receiver"), Memo: verif.String("memo")}
	coin := sdk.Coin{Denom: denom.IBCDenom(), Amount: amt}
	pre := w.Observe(sender.Addr, port, channel, coin.Denom)
	bs, xs := verif.StSnapshot(w.Ctx, w.Bank.Store), verif.StSnapshot(w.Ctx, w.XferStore)
	var err error
	if verif.Bool("timeout") {
		err = w.K.OnTimeoutPacket(w.Ctx, port, channel, data)
	} else {
		err = w.K.OnAcknowledgementPacket(w.Ctx, port, channel, data, errorAck())
	}
	if err != nil {
		verif.Reach("refund refused")
		return
	}
	verif.Reach("refunded")
	w.RefundContract(a, pre, bs, xs, sender.Addr, port, channel, denom, coin)
}

// WirePaths are the denomination paths the module-level harnesses put on the wire (parsing arbitrary paths is C33's
// subject): a native token, one-hop vouchers over a v1 channel and over two v2 clients, and a two-hop voucher.
var WirePaths = []string{"uatom", "transfer/channel-0/uatom", "transfer/07-tendermint-0/uatom", "transfer/07-tendermint-1/uatom", "transfer/channel-0/transfer/channel-1/uatom"}

// Wire is canonical packet data as a sending chain commits it, with what it means.
type Wire struct {
	Data   types.FungibleTokenPacketData
	Denom  types.Denom
	Amount sdkmath.Int
}

// SymWire builds packet data carrying an arbitrary positive amount of one of WirePaths between the given addresses.
func SymWire(sender, receiver string) Wire {
	path := WirePaths[verif.Choice("denomPath", len(WirePaths))]
	amt, amtStr := SymAmount("amount")
	memo := verif.String("memo")
	verif.Assume(len(memo) <= 16)
	return Wire{Data: types.NewFungibleTokenPacketData(path, amtStr, sender, receiver, memo), Denom: types.ExtractDenomFromPath(path), Amount: amt}
}

// V2Clients: the source client id is fixed, the destination client id is the same or a different one.
func V2Clients() (string, string) {
	return "07-tendermint-1", []string{"07-tendermint-0", "07-tendermint-1"}[verif.Choice("destClient", 2)]
}

func relayer() sdk.AccAddress { return sdk.MustAccAddressFromBech32(models.Accounts[2]) }

// V2Recv: the IBC v2 transfer module's OnRecvPacket with canonical data relayed by a third account.
func V2Recv(a Aspect) {
	w := New()
	src, dst := V2Clients()
	receiver := SymAccount("receiver", 2)
	wire := SymWire(models.Relayer, receiver.Bech32)
	payload := channeltypesv2.Payload{SourcePort: types.PortID, DestinationPort: types.PortID, Version: types.V1, Encoding: types.EncodingJSON, Value: wire.Data.GetBytes()}
	DistinctAccounts(receiver.Addr, payload.DestinationPort, dst)
	exp := ExpectedRecv(wire.Denom, payload.SourcePort, src, payload.DestinationPort, dst)
	pre := w.Observe(receiver.Addr, payload.DestinationPort, dst, exp.Local.IBCDenom())
	bs, xs := verif.StSnapshot(w.Ctx, w.Bank.Store), verif.StSnapshot(w.Ctx, w.XferStore)
	res := w.V2.OnRecvPacket(w.Ctx, src, dst, verif.Uint64("sequence"), payload, relayer())
	if res.Status != channeltypesv2.PacketStatus_Success {
		verif.Reach("receive refused")
		return
	}
	verif.Reach("received")
	w.RecvContract(a, pre, bs, xs, receiver.Addr, payload.DestinationPort, dst, exp, wire.Amount)
}

// V1Recv: the IBC v1 transfer module's OnRecvPacket with canonical data in an arbitrary packet.
func V1Recv(a Aspect) {
	w := New()
	receiver := SymAccount("receiver", 2)
	wire := SymWire(models.Relayer, receiver.Bech32)
	packet := channeltypes.Packet{Sequence: verif.Uint64("sequence"), SourcePort: verif.String("sourcePort"), SourceChannel: verif.String("sourceChannel"),
		DestinationPort: verif.String("destPort"), DestinationChannel: verif.String("destChannel"), Data: wire.Data.GetBytes()}
	DistinctAccounts(receiver.Addr, packet.DestinationPort, packet.DestinationChannel)
	exp := ExpectedRecv(wire.Denom, packet.SourcePort, packet.SourceChannel, packet.DestinationPort, packet.DestinationChannel)
	pre := w.Observe(receiver.Addr, packet.DestinationPort, packet.DestinationChannel, exp.Local.IBCDenom())
	bs, xs := verif.StSnapshot(w.Ctx, w.Bank.Store), verif.StSnapshot(w.Ctx, w.XferStore)
	ack := w.V1.OnRecvPacket(w.Ctx, types.V1, packet, relayer())
	if !ack.Success() {
		verif.Reach("receive refused")
		return
	}
	verif.Reach("received")
	w.RecvContract(a, pre, bs, xs, receiver.Addr, packet.DestinationPort, packet.DestinationChannel, exp, wire.Amount)
}

// V2Send: the IBC v2 transfer module's OnSendPacket with canonical data; signer and the data's sender are arbitrary
// (equal or different) pool accounts.
func V2Send(a Aspect) {
	w := New()
	src, dst := V2Clients()
	signer, sender := SymAccount("signer", 2), SymAccount("sender", 2)
	wire := SymWire(sender.Bech32, verif.String("receiver"))
	verif.Assume(wire.Data.ValidateBasic() == nil)
	payload := channeltypesv2.Payload{SourcePort: types.PortID, DestinationPort: types.PortID, Version: types.V1, Encoding: types.EncodingJSON, Value: wire.Data.GetBytes()}
	DistinctAccounts(signer.Addr, payload.SourcePort, src)
	DistinctAccounts(sender.Addr, payload.SourcePort, src)
	coin := sdk.Coin{Denom: wire.Denom.IBCDenom(), Amount: wire.Amount}
	pre := w.Observe(signer.Addr, payload.SourcePort, src, coin.Denom)
	bs, xs := verif.StSnapshot(w.Ctx, w.Bank.Store), verif.StSnapshot(w.Ctx, w.XferStore)
	err := w.V2.OnSendPacket(w.Ctx, src, dst, verif.Uint64("sequence"), payload, signer.Addr)
	if a&Auth != 0 && signer.Bech32 != sender.Bech32 {
		verif.Reach("sender differs from signer")
		verif.Assert(err != nil, "a payload whose sender is not the signer is refused")
		verif.Assert(verif.StEqual(w.Ctx, w.Bank.Store, bs), "a refused send moves no tokens")
	}
	if err != nil {
		verif.Reach("send refused")
		return
	}
	verif.Reach("sent")
	w.SendContract(a, pre, bs, xs, signer.Addr, payload.SourcePort, src, wire.Denom, coin)
}

// MsgTransferV1: the transfer msg server's Transfer over an existing v1 channel (the v2 route hands the debit to
// OnSendPacket, see V2Send). The token is an arbitrary native denomination or the voucher of a registered trace.
func MsgTransferV1(a Aspect) {
	w := New()
	sender := SymAccount("sender", 2)
	channel := verif.String("channel")
	var denom types.Denom
	if k := verif.Choice("token", len(WirePaths)); k == 0 {
		denom = SymDenom("denom", 0)
		verif.Assume(!strings.Contains(denom.Base, "/")) // slash-separated native denominations are C33's subject
	} else {
		denom = types.ExtractDenomFromPath(WirePaths[k])
		w.K.SetDenom(w.Ctx, denom)
	}
	amt, _ := SymAmount("amount")
	verif.Assume(!amt.Equal(types.UnboundedSpendLimit()))
	coin := sdk.Coin{Denom: denom.IBCDenom(), Amount: amt}
	memo := verif.String("memo")
	verif.Assume(len(memo) <= 16)
	msg := &types.MsgTransfer{SourcePort: types.PortID, SourceChannel: channel, Token: coin, Sender: sender.Bech32, Receiver: verif.String("receiver"),
		TimeoutHeight: clienttypes.NewHeight(verif.Uint64("timeoutRev"), verif.Uint64("timeoutHeight")), TimeoutTimestamp: verif.Uint64("timeoutTimestamp"), Memo: memo}
	DistinctAccounts(sender.Addr, types.PortID, channel)
	pre := w.Observe(sender.Addr, types.PortID, channel, coin.Denom)
	bs, xs := verif.StSnapshot(w.Ctx, w.Bank.Store), verif.StSnapshot(w.Ctx, w.XferStore)
	_, err := w.K.Transfer(w.Ctx, msg)
	if err != nil {
		verif.Reach("transfer refused")
		return
	}
	verif.Reach("transferred")
	verif.Assert(verif.CallCount("ics4.SendPacket") == 1, "exactly one packet is handed to the channel layer")
	w.SendContract(a, pre, bs, xs, sender.Addr, types.PortID, channel, denom, coin)
}

// V2Refund: the IBC v2 transfer module's OnTimeoutPacket / OnAcknowledgementPacket(universal error acknowledgement) with
// canonical data and arbitrary ports; source client fixed, destination client equal or different.
func V2Refund(a Aspect) {
	w := New()
	src, dst := V2Clients()
	sender := SymAccount("sender", 2)
	wire := SymWire(sender.Bech32, verif.String("receiver"))
	verif.Assume(wire.Data.ValidateBasic() == nil) // the sending chain only commits data its validator accepted
	payload := channeltypesv2.Payload{SourcePort: verif.String("sourcePort"), DestinationPort: verif.String("destPort"), Version: types.V1, Encoding: types.EncodingJSON, Value: wire.Data.GetBytes()}
	DistinctAccounts(sender.Addr, payload.SourcePort, src)
	coin := sdk.Coin{Denom: wire.Denom.IBCDenom(), Amount: wire.Amount}
	pre := w.Observe(sender.Addr, payload.SourcePort, src, coin.Denom)
	bs, xs := verif.StSnapshot(w.Ctx, w.Bank.Store), verif.StSnapshot(w.Ctx, w.XferStore)
	var err error
	if verif.Bool("timeout") {
		err = w.V2.OnTimeoutPacket(w.Ctx, src, dst, verif.Uint64("sequence"), payload, relayer())
	} else {
		err = w.V2.OnAcknowledgementPacket(w.Ctx, src, dst, verif.Uint64("sequence"), channeltypesv2.ErrorAcknowledgement[:], payload, relayer())
	}
	if err != nil {
		verif.Reach("refund refused")
		return
	}
	verif.Reach("refunded")
	w.RefundContract(a, pre, bs, xs, sender.Addr, payload.SourcePort, src, wire.Denom, coin)
}

// errorAck is an error acknowledgement with an arbitrary error string (counterparties other than ibc-go choose their own).
func errorAck() channeltypes.Acknowledgement {
	return channeltypes.Acknowledgement{Response: &channeltypes.Acknowledgement_Error{Error: verif.String("ackError")}}
}
