package xferkit

import (
	sdkmath "cosmossdk.io/math"

	sdk "github.com/cosmos/cosmos-sdk/types"

	"github.com/cosmos/ibc-go/v11/modules/apps/transfer/types"

	"verifharness/models"
	"verifharness/verif"
)

// Aspect selects which part of a step contract a harness asserts (one property each; the executions are the same).
type Aspect int

const (
	Conservation Aspect = 1 << iota // C30: tokens are neither created nor lost by a step
	Tracked                         // C31: the tracked total escrow follows the escrow account
	Auth                            // C49: only the authorised account is debited, only the named account credited
)

// SendContract checks the post-state of a successful send of amount of denom by sender over (port, channel).
func (w *World) SendContract(a Aspect, pre Obs, bankSnap, xferSnap int, sender sdk.AccAddress, port, channel string, denom types.Denom, coin sdk.Coin) {
	post := w.Observe(sender, port, channel, coin.Denom)
	amt := coin.Amount
	sink := denom.HasPrefix(port, channel)
	if sink {
		verif.Reach("send burns a returning voucher")
	} else {
		verif.Reach("send escrows")
	}
	if a&Conservation != 0 {
		verif.Assert(post.Account.Equal(pre.Account.Sub(amt)), "the sender pays exactly the amount")
		verif.Assert(post.Module.Equal(pre.Module), "the transfer module account keeps nothing")
		if sink {
			verif.Assert(post.Supply.Equal(pre.Supply.Sub(amt)) && post.Escrow.Equal(pre.Escrow), "a voucher going home is burned: supply down by the amount, escrow untouched")
		} else {
			verif.Assert(post.Escrow.Equal(pre.Escrow.Add(amt)) && post.Supply.Equal(pre.Supply), "a token leaving its source is escrowed: escrow up by the amount, supply unchanged")
		}
		verif.Assert(verif.StEqualExcept(w.Ctx, w.Bank.Store, bankSnap, w.BankKeys(sender, port, channel, coin.Denom)...), "no other balance or supply changes")
	}
	if a&Tracked != 0 {
		w.trackedContract(pre, post, xferSnap, coin.Denom)
	}
	if a&Auth != 0 {
		verif.Assert(post.Account.Equal(pre.Account.Sub(amt)), "the sender pays exactly the amount")
		verif.Assert(verif.StEqualExcept(w.Ctx, w.Bank.Store, bankSnap, w.BankKeys(sender, port, channel, coin.Denom)...), "no account other than the sender, the channel escrow and the module account changes")
	}
}

// trackedContract: the tracked total escrow of denom moves exactly as the escrow account's balance of denom, stays
// non-negative, and nothing else in the transfer store changes.
func (w *World) trackedContract(pre, post Obs, xferSnap int, denom string) {
	verif.Assert(post.TotalEscrow.Sub(pre.TotalEscrow).Equal(post.Escrow.Sub(pre.Escrow)), "the tracked total escrow changes by exactly the change of the escrow account")
	verif.Assert(!post.TotalEscrow.IsNegative(), "the tracked total escrow is never negative")
	verif.Assert(verif.StEqualExcept(w.Ctx, w.XferStore, xferSnap, types.TotalEscrowForDenomKey(denom)), "no other tracked escrow entry changes")
}

// RecvResult describes what a successful receive must have done.
type RecvResult struct {
	Returning bool        // the token came home: unescrowed
	Local     types.Denom // the denomination credited on this chain
}

// ExpectedRecv is the ICS-20 rule: a token whose first hop is the packet's source (port, channel) is coming home and
// loses that hop; any other token gains the destination (port, channel) as its first hop.
func ExpectedRecv(denom types.Denom, sourcePort, sourceChannel, destPort, destChannel string) RecvResult {
	if denom.HasPrefix(sourcePort, sourceChannel) {
		return RecvResult{Returning: true, Local: types.Denom{Base: denom.Base, Trace: denom.Trace[1:]}}
	}
	return RecvResult{Local: types.Denom{Base: denom.Base, Trace: append([]types.Hop{{PortId: destPort, ChannelId: destChannel}}, denom.Trace...)}}
}

// RecvContract checks the post-state of a successful receive of amt of the expected local denomination by receiver over
// the destination (port, channel).
func (w *World) RecvContract(a Aspect, pre Obs, bankSnap, xferSnap int, receiver sdk.AccAddress, destPort, destChannel string, exp RecvResult, amt sdkmath.Int) {
	local := exp.Local.IBCDenom()
	post := w.Observe(receiver, destPort, destChannel, local)
	if exp.Returning {
		verif.Reach("receive unescrows a returning token")
	} else {
		verif.Reach("receive mints a voucher")
	}
	keys := append(w.BankKeys(receiver, destPort, destChannel, local), w.Bank.MetadataKey(local))
	if a&Conservation != 0 {
		verif.Assert(post.Account.Equal(pre.Account.Add(amt)), "the receiver is credited exactly the amount of the expected denomination")
		verif.Assert(post.Module.Equal(pre.Module), "the transfer module account keeps nothing")
		if exp.Returning {
			verif.Assert(post.Escrow.Equal(pre.Escrow.Sub(amt)) && post.Supply.Equal(pre.Supply), "a returning token is released from the channel's escrow: escrow down by the amount, supply unchanged")
		} else {
			verif.Assert(post.Supply.Equal(pre.Supply.Add(amt)) && post.Escrow.Equal(pre.Escrow), "a foreign token is minted as a voucher: supply up by the amount, escrow untouched")
		}
		verif.Assert(verif.StEqualExcept(w.Ctx, w.Bank.Store, bankSnap, keys...), "no other balance or supply changes")
	}
	if a&Tracked != 0 {
		verif.Assert(post.TotalEscrow.Sub(pre.TotalEscrow).Equal(post.Escrow.Sub(pre.Escrow)), "the tracked total escrow changes by exactly the change of the escrow account")
		verif.Assert(!post.TotalEscrow.IsNegative(), "the tracked total escrow is never negative")
		verif.Assert(verif.StEqualExcept(w.Ctx, w.XferStore, xferSnap, types.TotalEscrowForDenomKey(local), w.DenomKey(exp.Local)), "no other tracked escrow entry changes")
	}
	if a&Auth != 0 {
		verif.Assert(!post.Account.LT(pre.Account), "the receiver is never debited")
		verif.Assert(verif.StEqualExcept(w.Ctx, w.Bank.Store, bankSnap, keys...), "no account other than the receiver, the channel escrow and the module account changes")
	}
}

// RefundContract checks the post-state of a successful refund of coin (of denom) to sender over the source (port, channel).
func (w *World) RefundContract(a Aspect, pre Obs, bankSnap, xferSnap int, sender sdk.AccAddress, port, channel string, denom types.Denom, coin sdk.Coin) {
	post := w.Observe(sender, port, channel, coin.Denom)
	amt := coin.Amount
	sink := denom.HasPrefix(port, channel)
	if sink {
		verif.Reach("refund by minting")
	} else {
		verif.Reach("refund by unescrow")
	}
	if a&Conservation != 0 {
		verif.Assert(post.Account.Equal(pre.Account.Add(amt)), "the sender gets back exactly the amount")
		verif.Assert(post.Module.Equal(pre.Module), "the transfer module account keeps nothing")
		if sink {
			verif.Assert(post.Supply.Equal(pre.Supply.Add(amt)) && post.Escrow.Equal(pre.Escrow), "a burned voucher is minted back: supply up by the amount, escrow untouched")
		} else {
			verif.Assert(post.Escrow.Equal(pre.Escrow.Sub(amt)) && post.Supply.Equal(pre.Supply), "an escrowed token is released: escrow down by the amount, supply unchanged")
		}
		verif.Assert(verif.StEqualExcept(w.Ctx, w.Bank.Store, bankSnap, w.BankKeys(sender, port, channel, coin.Denom)...), "no other balance or supply changes")
	}
	if a&Tracked != 0 {
		w.trackedContract(pre, post, xferSnap, coin.Denom)
	}
	if a&Auth != 0 {
		verif.Assert(!post.Account.LT(pre.Account), "the original sender is never debited by a refund")
		verif.Assert(verif.StEqualExcept(w.Ctx, w.Bank.Store, bankSnap, w.BankKeys(sender, port, channel, coin.Denom)...), "no account other than the original sender, the channel escrow and the module account changes")
	}
}

var _ = models.Relayer
