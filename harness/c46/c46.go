// Package c46: privileged and client-scoped operations require the right signer.
package c46

import (
	sdk "github.com/cosmos/cosmos-sdk/types"

	clienttypes "github.com/cosmos/ibc-go/v11/modules/core/02-client/types"
	clientv2types "github.com/cosmos/ibc-go/v11/modules/core/02-client/v2/types"
	conntypes "github.com/cosmos/ibc-go/v11/modules/core/03-connection/types"
	v2 "github.com/cosmos/ibc-go/v11/modules/core/04-channel/v2/types"

	"verifharness/corekit"
	"verifharness/models"
	"verifharness/verif"
)

// HarnessAuthorityOnly: client recovery and parameter updates succeed only for the module authority; any other signer
// is rejected without a state change.
func HarnessAuthorityOnly() {
	w := models.NewWorld()
	w.SetParams()
	signer := models.SymAccount("signer")
	snap := verif.StSnapshot(w.Ctx, "ibc")
	var err error
	switch verif.Choice("op", 3) {
	case 0:
		_, err = w.IBC.UpdateClientParams(w.Ctx, &clienttypes.MsgUpdateParams{Signer: signer, Params: clienttypes.NewParams(verif.String("allowed"))})
	case 1:
		_, err = w.IBC.UpdateConnectionParams(w.Ctx, &conntypes.MsgUpdateParams{Signer: signer, Params: conntypes.NewParams(verif.Uint64("blockTime"))})
	case 2:
		_, err = w.IBC.RecoverClient(w.Ctx, &clienttypes.MsgRecoverClient{Signer: signer, SubjectClientId: models.ClientID, SubstituteClientId: models.ClientType + "-1"})
	}
	verif.Reach("returned")
	if signer != models.Authority {
		verif.Reach("other signer")
		verif.Assert(err != nil, "a signer other than the authority is rejected")
		verif.Assert(verif.StEqual(w.Ctx, "ibc", snap), "and nothing is written")
	}
	if err == nil {
		verif.Reach("succeeded")
		verif.Assert(signer == models.Authority, "privileged operations succeed only for the authority")
	}
}

// HarnessCreatorOrAuthority: client config updates and creator deletion succeed only for the authority or the account
// that created the client.
func HarnessCreatorOrAuthority() {
	w := models.NewWorld()
	w.SetParams()
	signer := models.SymAccount("signer")
	creator := w.IBC.ClientKeeper.GetClientCreator(w.Ctx, models.ClientID)
	snap := verif.StSnapshot(w.Ctx, "ibc")
	var err error
	if verif.Choice("op", 2) == 0 {
		_, err = w.IBC.UpdateClientConfig(w.Ctx, &clientv2types.MsgUpdateClientConfig{ClientId: models.ClientID, Config: clientv2types.NewConfig(), Signer: signer})
	} else {
		_, err = w.IBC.DeleteClientCreator(w.Ctx, &clienttypes.MsgDeleteClientCreator{ClientId: models.ClientID, Signer: signer})
	}
	verif.Reach("returned")
	if err == nil {
		verif.Reach("succeeded")
		isCreator := len(creator) != 0 && creator.Equals(sdk.MustAccAddressFromBech32(signer))
		verif.Assert(signer == models.Authority || isCreator, "only the authority or the client's creator may change the client's configuration")
	} else {
		verif.Assert(verif.StEqual(w.Ctx, "ibc", snap), "a rejected request writes nothing")
	}
}

// HarnessRegisterCounterpartyOnce: the counterparty of a client can be registered only by the client's creator and only once.
func HarnessRegisterCounterpartyOnce() {
	w := models.NewWorld()
	w.SetParams()
	signer := models.SymAccount("signer")
	creator := w.IBC.ClientKeeper.GetClientCreator(w.Ctx, models.ClientID)
	_, had := w.IBC.ClientV2Keeper.GetClientCounterparty(w.Ctx, models.ClientID)
	snap := verif.StSnapshot(w.Ctx, "ibc")
	_, err := w.IBC.RegisterCounterparty(w.Ctx, &clientv2types.MsgRegisterCounterparty{ClientId: models.ClientID,
		CounterpartyMerklePrefix: [][]byte{verif.Bytes("prefix0"), verif.Bytes("prefix1")}, CounterpartyClientId: verif.String("cpClient"), Signer: signer})
	verif.Reach("returned")
	if err == nil {
		verif.Reach("registered")
		verif.Assert(len(creator) != 0 && creator.Equals(sdk.MustAccAddressFromBech32(signer)), "only the client's creator registers its counterparty")
		verif.Assert(!had, "a counterparty is registered at most once")
		next, ok := w.IBC.ChannelKeeperV2.GetNextSequenceSend(w.Ctx, models.ClientID)
		verif.Assert(ok && next == 1, "the send sequence starts at 1")
	} else {
		verif.Assert(verif.StEqual(w.Ctx, "ibc", snap), "a rejected registration writes nothing")
	}
}

// HarnessRelayerAllowList: with a non-empty relayer allow list configured for the destination identifier, a v2 receive
// from a signer that is not on the list is rejected before anything happens.
func HarnessRelayerAllowList() {
	s := corekit.RecvSideV2(1, 1)
	w := s.W
	allowed := []string{models.SymAccountN("allowed0", 2)}
	if verif.Bool("two") {
		allowed = append(allowed, models.Accounts[2])
	}
	w.IBC.ClientV2Keeper.SetConfig(w.Ctx, s.Local, clientv2types.Config{AllowedRelayers: allowed})
	signer := models.SymAccountN("signer", 4)
	msg := s.RecvMsg()
	msg.Signer = signer
	snap := verif.StSnapshot(w.Ctx, "ibc")
	res, err := w.IBC.ChannelKeeperV2.RecvPacket(w.Ctx, msg)
	verif.Reach("returned")
	if err == nil && res.Result == v2.SUCCESS {
		verif.Reach("received")
		acc := sdk.MustAccAddressFromBech32(signer)
		on := false
		for _, a := range allowed {
			if acc.Equals(sdk.MustAccAddressFromBech32(a)) {
				on = true
			}
		}
		verif.Assert(on, "a packet is relayed only by a signer on the allow list")
	}
	if err != nil && verif.CallCount("V2.OnRecvPacket") == 0 {
		verif.Assert(verif.StEqual(w.Ctx, "ibc", snap), "a rejected relay writes nothing")
	}
}

// sourceSideAllowList: acknowledgement and timeout messages are processed on the packet's source chain, so the allow
// list that counts is the one of the local (source) client — whatever is configured under the destination identifier.
func sourceSideAllowList(timeout bool) {
	s := corekit.SendSideV2(1, 1)
	w := s.W
	allowed := []string{models.SymAccountN("allowed0", 2)}
	if verif.Bool("two") {
		allowed = append(allowed, models.Accounts[2])
	}
	w.IBC.ClientV2Keeper.SetConfig(w.Ctx, s.Local, clientv2types.Config{AllowedRelayers: allowed})
	signer := models.SymAccountN("signer", 4)
	var err error
	ok := false
	if timeout {
		msg := s.TimeoutMsg()
		msg.Signer = signer
		var res *v2.MsgTimeoutResponse
		res, err = w.IBC.ChannelKeeperV2.Timeout(w.Ctx, msg)
		ok = err == nil && res.Result == v2.SUCCESS
	} else {
		msg := s.AckMsg(1)
		msg.Signer = signer
		var res *v2.MsgAcknowledgementResponse
		res, err = w.IBC.ChannelKeeperV2.Acknowledgement(w.Ctx, msg)
		ok = err == nil && res.Result == v2.SUCCESS
	}
	verif.Reach("returned")
	if ok {
		verif.Reach("processed")
		acc := sdk.MustAccAddressFromBech32(signer)
		on := false
		for _, a := range allowed {
			if acc.Equals(sdk.MustAccAddressFromBech32(a)) {
				on = true
			}
		}
		verif.Assert(on, "an acknowledgement or timeout is relayed only by a signer on the source client's allow list")
	}
}

// HarnessAckAllowList / HarnessTimeoutAllowList.
func HarnessAckAllowList()     { sourceSideAllowList(false) }
func HarnessTimeoutAllowList() { sourceSideAllowList(true) }
