// Package c30: ICS-20 conserves tokens. The global balance (escrow on the source = vouchers on the destination +
// in flight) is preserved by every step if each step moves exactly the packet's amount between exactly the accounts
// the ICS-20 rule names; the harnesses check that per-step contract for one arbitrary step from an arbitrary state.
package c30

import "verifharness/xferkit"

// HarnessSendStep: SendTransfer escrows a token leaving its source, burns a voucher going home, and touches nothing else.
func HarnessSendStep() { xferkit.KeeperSend(xferkit.Conservation, 2) }

// HarnessRecvStep: OnRecvPacket releases a returning token from the destination channel's escrow, mints a voucher
// prefixed with the destination (port, channel) for any other token, and touches nothing else.
func HarnessRecvStep() { xferkit.KeeperRecv(xferkit.Conservation, 2) }

// HarnessRefundStep: a timeout or error acknowledgement undoes exactly what the send did.
func HarnessRefundStep() { xferkit.KeeperRefund(xferkit.Conservation, 2) }

// HarnessV1RecvModule / HarnessV2RecvModule: the receive contract through the real v1 / v2 transfer modules, which decode
// the packet data and pick the ports and channel or client identifiers the keeper is given.
func HarnessV1RecvModule() { xferkit.V1Recv(xferkit.Conservation) }
func HarnessV2RecvModule() { xferkit.V2Recv(xferkit.Conservation) }

// HarnessV2SendModule: the send contract through the v2 transfer module's OnSendPacket.
func HarnessV2SendModule() { xferkit.V2Send(xferkit.Conservation) }

// HarnessMsgTransfer: the send contract through the msg server's Transfer over a v1 channel.
func HarnessMsgTransfer() { xferkit.MsgTransferV1(xferkit.Conservation) }

// HarnessV2RefundModule: the refund contract through the v2 transfer module (which picks the identifiers the keeper is given).
func HarnessV2RefundModule() { xferkit.V2Refund(xferkit.Conservation) }
