// Package c05: a packet is received only if proven, unaltered and unexpired.
package c05

import (
	"bytes"

	clienttypes "github.com/cosmos/ibc-go/v11/modules/core/02-client/types"
	conntypes "github.com/cosmos/ibc-go/v11/modules/core/03-connection/types"
	chantypes "github.com/cosmos/ibc-go/v11/modules/core/04-channel/types"
	v2 "github.com/cosmos/ibc-go/v11/modules/core/04-channel/v2/types"
	host "github.com/cosmos/ibc-go/v11/modules/core/24-host"
	hostv2 "github.com/cosmos/ibc-go/v11/modules/core/24-host/v2"

	"verifharness/corekit"
	"verifharness/models"
	"verifharness/verif"
)

func cat(parts ...[]byte) []byte {
	var out []byte
	for _, p := range parts {
		out = append(out, p...)
	}
	return out
}

// HarnessV1RecvGuards: SUCCESS of the v1 receive implies every guard of ICS-4 and exactly one membership proof of
// CommitPacket(packet) at the counterparty's commitment key for the packet's source identifiers, on the connection's client.
func HarnessV1RecvGuards() {
	s := corekit.RecvSide()
	w, p := s.W, s.P
	msg := s.RecvMsg()
	snap := verif.StSnapshot(w.Ctx, "ibc")
	res, err := w.IBC.RecvPacket(w.Ctx, msg)
	if err == nil && res.Result == chantypes.SUCCESS {
		verif.Reach("received")
		verif.Assert(s.Ch.State == chantypes.OPEN, "channel is OPEN")
		verif.Assert(s.Conn.State == conntypes.OPEN, "connection is OPEN")
		verif.Assert(p.SourcePort == s.Ch.Counterparty.PortId && p.SourceChannel == s.Ch.Counterparty.ChannelId, "packet comes from the channel's counterparty")
		self := clienttypes.GetSelfHeight(w.Ctx)
		now := uint64(w.Ctx.BlockTime().UnixNano())
		verif.Assert(!chantypes.NewTimeout(p.TimeoutHeight, p.TimeoutTimestamp).Elapsed(self, now), "timeout has not elapsed on the receiving chain")
		verif.Assert(verif.CallCount("Status") >= 1 && verif.CallArgString("Status", 0, 1) == "Active", "client is Active")
		verif.Assert(verif.CallCount("VerifyMembership") == 1, "exactly one membership proof")
		verif.Assert(verif.CallArgString("VerifyMembership", 0, 0) == s.Conn.ClientId, "proof verified by the connection's client")
		verif.Assert(verif.CallArgUint64("VerifyMembership", 0, 1) == msg.ProofHeight.RevisionNumber && verif.CallArgUint64("VerifyMembership", 0, 2) == msg.ProofHeight.RevisionHeight, "at the submitted proof height")
		verif.Assert(verif.CallArgUint64("VerifyMembership", 0, 3) == s.Conn.DelayPeriod, "with the connection's delay period")
		verif.Assert(bytes.Equal(verif.CallArgBytes("VerifyMembership", 0, 5), msg.ProofCommitment), "the submitted proof")
		wantPath := cat(s.Conn.Counterparty.Prefix.KeyPrefix, []byte("|"), host.PacketCommitmentKey(p.SourcePort, p.SourceChannel, p.Sequence))
		verif.Assert(bytes.Equal(verif.CallArgBytes("VerifyMembership", 0, 6), wantPath), "path = counterparty prefix + commitment key of (source port, source channel, sequence)")
		verif.Assert(bytes.Equal(verif.CallArgBytes("VerifyMembership", 0, 7), chantypes.CommitPacket(p)), "value = CommitPacket(packet)")
	}
	if err != nil && verif.CallCount("OnRecvPacket") == 0 {
		verif.Assert(verif.StEqual(w.Ctx, "ibc", snap), "a rejected receive changes no IBC state")
	}
}

// HarnessV2RecvGuards: SUCCESS of the v2 receive implies counterparty match, timeout not reached and one membership
// proof of v2.CommitPacket(packet) at the v2 commitment key of (source client, sequence) under the counterparty prefix,
// verified by the light client the destination identifier resolves to.
func HarnessV2RecvGuards() {
	s := corekit.RecvSideV2(1, 2)
	w, p := s.W, s.P
	msg := s.RecvMsg()
	snap := verif.StSnapshot(w.Ctx, "ibc")
	res, err := w.IBC.ChannelKeeperV2.RecvPacket(w.Ctx, msg)
	if err == nil && res.Result == v2.SUCCESS {
		verif.Reach("received")
		verif.Assert(p.SourceClient == s.CP.ClientID, "packet source is the registered counterparty")
		verif.Assert(uint64(w.Ctx.BlockTime().Unix()) < p.TimeoutTimestamp, "timeout (seconds) not reached on the receiving chain")
		verif.Assert(verif.CallCount("VerifyMembership") == 1, "exactly one membership proof")
		verif.Assert(verif.CallArgString("VerifyMembership", 0, 0) == models.ClientID, "verified by the resolved light client")
		verif.Assert(verif.CallArgUint64("VerifyMembership", 0, 1) == msg.ProofHeight.RevisionNumber && verif.CallArgUint64("VerifyMembership", 0, 2) == msg.ProofHeight.RevisionHeight, "at the submitted proof height")
		wantPath := cat(s.CP.Prefix[0], []byte("|"), s.CP.Prefix[1], hostv2.PacketCommitmentKey(p.SourceClient, p.Sequence))
		verif.Assert(bytes.Equal(verif.CallArgBytes("VerifyMembership", 0, 6), wantPath), "path = counterparty prefix + v2 commitment key of (source client, sequence)")
		verif.Assert(bytes.Equal(verif.CallArgBytes("VerifyMembership", 0, 7), v2.CommitPacket(p)), "value = v2 CommitPacket(packet)")
	}
	if err != nil && verif.CallCount("V2.OnRecvPacket") == 0 {
		verif.Assert(verif.StEqual(w.Ctx, "ibc", snap), "a rejected v2 receive changes no IBC state")
	}
}
