// Package c06: acknowledgements are processed only if proven for that exact packet.
package c06

import (
	"bytes"

	conntypes "github.com/cosmos/ibc-go/v11/modules/core/03-connection/types"
	chantypes "github.com/cosmos/ibc-go/v11/modules/core/04-channel/types"
	v2 "github.com/cosmos/ibc-go/v11/modules/core/04-channel/v2/types"
	host "github.com/cosmos/ibc-go/v11/modules/core/24-host"
	hostv2 "github.com/cosmos/ibc-go/v11/modules/core/24-host/v2"

	"verifharness/corekit"
	"verifharness/models"
	"verifharness/verif"
)

func cat(parts ...[]byte) []byte {
	var out []byte
	for _, p := range parts {
		out = append(out, p...)
	}
	return out
}

// HarnessV1AckProven: SUCCESS implies stored commitment = CommitPacket(packet), one membership proof of
// sha256(ack bytes) at the acknowledgement key of the packet's destination identifiers, and the callback got those bytes.
func HarnessV1AckProven() {
	s := corekit.SendSide()
	w, p := s.W, s.P
	msg := s.AckMsg()
	commitBefore := w.IBC.ChannelKeeper.GetPacketCommitment(w.Ctx, p.SourcePort, p.SourceChannel, p.Sequence)
	res, err := w.IBC.Acknowledgement(w.Ctx, msg)
	if err == nil && res.Result == chantypes.SUCCESS {
		verif.Reach("acknowledged")
		verif.Assert(s.Ch.State == chantypes.OPEN && s.Conn.State == conntypes.OPEN, "channel and connection OPEN")
		verif.Assert(p.DestinationPort == s.Ch.Counterparty.PortId && p.DestinationChannel == s.Ch.Counterparty.ChannelId, "packet destination is the channel's counterparty")
		verif.Assert(bytes.Equal(commitBefore, chantypes.CommitPacket(p)), "stored commitment equals CommitPacket(packet)")
		verif.Assert(verif.CallCount("VerifyMembership") == 1, "exactly one membership proof")
		verif.Assert(verif.CallArgString("VerifyMembership", 0, 0) == s.Conn.ClientId, "verified by the connection's client")
		wantPath := cat(s.Conn.Counterparty.Prefix.KeyPrefix, []byte("|"), host.PacketAcknowledgementKey(p.DestinationPort, p.DestinationChannel, p.Sequence))
		verif.Assert(bytes.Equal(verif.CallArgBytes("VerifyMembership", 0, 6), wantPath), "path = counterparty prefix + ack key of (dest port, dest channel, sequence)")
		verif.Assert(bytes.Equal(verif.CallArgBytes("VerifyMembership", 0, 7), chantypes.CommitAcknowledgement(msg.Acknowledgement)), "value = hash of the submitted acknowledgement bytes")
		verif.Assert(verif.CallCount("OnAcknowledgementPacket") == 1, "callback runs once")
		verif.Assert(bytes.Equal(verif.CallArgBytes("OnAcknowledgementPacket", 0, 3), msg.Acknowledgement), "callback receives exactly the proven acknowledgement bytes")
		verif.Assert(verif.CallArgUint64("OnAcknowledgementPacket", 0, 2) == p.Sequence, "callback is for this packet")
	}
}

// HarnessV2AckProven: the v2 variant: value = v2.CommitAcknowledgement(submitted acknowledgement); callback i receives
// app acknowledgement i, or the error sentinel for every payload when the first element is the sentinel.
func HarnessV2AckProven() {
	s := corekit.SendSideV2(1, 2)
	w, p := s.W, s.P
	msg := s.AckMsg(2)
	verif.Assume(len(msg.Acknowledgement.AppAcknowledgements) == len(p.Payloads) || len(msg.Acknowledgement.AppAcknowledgements) == 1)
	commitBefore := w.IBC.ChannelKeeperV2.GetPacketCommitment(w.Ctx, p.SourceClient, p.Sequence)
	res, err := w.IBC.ChannelKeeperV2.Acknowledgement(w.Ctx, msg)
	if err == nil && res.Result == v2.SUCCESS {
		verif.Reach("acknowledged")
		verif.Assert(p.DestinationClient == s.CP.ClientID, "packet destination is the registered counterparty")
		verif.Assert(bytes.Equal(commitBefore, v2.CommitPacket(p)), "stored commitment equals v2 CommitPacket(packet)")
		verif.Assert(verif.CallCount("VerifyMembership") == 1, "exactly one membership proof")
		verif.Assert(verif.CallArgString("VerifyMembership", 0, 0) == models.ClientID, "verified by the resolved light client")
		wantPath := cat(s.CP.Prefix[0], []byte("|"), s.CP.Prefix[1], hostv2.PacketAcknowledgementKey(p.DestinationClient, p.Sequence))
		verif.Assert(bytes.Equal(verif.CallArgBytes("VerifyMembership", 0, 6), wantPath), "path = counterparty prefix + v2 ack key of (destination client, sequence)")
		verif.Assert(bytes.Equal(verif.CallArgBytes("VerifyMembership", 0, 7), v2.CommitAcknowledgement(msg.Acknowledgement)), "value = commitment of the submitted acknowledgement")
		verif.Assert(verif.CallCount("V2.OnAcknowledgementPacket") == len(p.Payloads), "one callback per payload")
		isErr := bytes.Equal(msg.Acknowledgement.AppAcknowledgements[0], v2.ErrorAcknowledgement[:])
		for i := range p.Payloads {
			got := verif.CallArgBytes("V2.OnAcknowledgementPacket", i, 3)
			if isErr {
				verif.Assert(bytes.Equal(got, v2.ErrorAcknowledgement[:]), "error sentinel is passed to every payload's callback")
			} else {
				verif.Assert(bytes.Equal(got, msg.Acknowledgement.AppAcknowledgements[i]), "callback i receives app acknowledgement i")
			}
			verif.Assert(bytes.Equal(verif.CallArgBytes("V2.OnAcknowledgementPacket", i, 4), p.Payloads[i].Value), "callback i is for payload i")
		}
	}
}
