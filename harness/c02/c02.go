// Package c02: ordered channels deliver and acknowledge strictly in sequence.
package c02

import (
	"math"

	chantypes "github.com/cosmos/ibc-go/v11/modules/core/04-channel/types"

	"verifharness/corekit"
	"verifharness/verif"
)

// HarnessOrderedRecvInSequence: on an ORDERED channel SUCCESS implies seq == nextSequenceRecv(pre) and post = pre+1;
// a later sequence is rejected without any change or callback; an earlier one is a NOOP.
func HarnessOrderedRecvInSequence() {
	s := corekit.RecvSide()
	w, p := s.W, s.P
	verif.Assume(s.Ch.Ordering == chantypes.ORDERED)
	next, found := w.IBC.ChannelKeeper.GetNextSequenceRecv(w.Ctx, p.DestinationPort, p.DestinationChannel)
	verif.Assume(!found || next < math.MaxUint64) // counter wrap-around at 2^64-1 is outside the claim
	snap := verif.StSnapshot(w.Ctx, "ibc")
	res, err := w.IBC.RecvPacket(w.Ctx, s.RecvMsg())
	verif.Reach("returned")
	after, _ := w.IBC.ChannelKeeper.GetNextSequenceRecv(w.Ctx, p.DestinationPort, p.DestinationChannel)
	if err == nil && res.Result == chantypes.SUCCESS {
		verif.Reach("delivered")
		verif.Assert(found && p.Sequence == next, "ordered delivery only of the next expected sequence")
		verif.Assert(after == next+1, "nextSequenceRecv advances by exactly one")
		verif.Assert(verif.CallCount("OnRecvPacket") == 1, "application called exactly once")
	} else {
		verif.Assert(verif.CallCount("OnRecvPacket") == 0 || err != nil, "no callback without delivery")
	}
	if found && p.Sequence > next {
		verif.Reach("gap")
		verif.Assert(err != nil, "a sequence beyond the next expected one is rejected")
		verif.Assert(verif.CallCount("OnRecvPacket") == 0, "gap: application not called")
		verif.Assert(verif.StEqual(w.Ctx, "ibc", snap), "gap: no state change")
	}
	if found && p.Sequence < next {
		verif.Assert(err != nil || res.Result == chantypes.NOOP, "an already delivered sequence is a NOOP or error")
		verif.Assert(after == next, "counter unchanged for an old sequence")
	}
	if err != nil && verif.CallCount("OnRecvPacket") == 0 {
		verif.Assert(after == next, "counter unchanged when the receive fails")
	}
}

// HarnessOrderedAckInSequence: on an ORDERED channel an acknowledgement succeeds only for seq == nextSequenceAck(pre), then post = pre+1.
func HarnessOrderedAckInSequence() {
	s := corekit.SendSide()
	w, p := s.W, s.P
	verif.Assume(s.Ch.Ordering == chantypes.ORDERED)
	next, found := w.IBC.ChannelKeeper.GetNextSequenceAck(w.Ctx, p.SourcePort, p.SourceChannel)
	verif.Assume(!found || next < math.MaxUint64)
	res, err := w.IBC.Acknowledgement(w.Ctx, s.AckMsg())
	verif.Reach("returned")
	after, _ := w.IBC.ChannelKeeper.GetNextSequenceAck(w.Ctx, p.SourcePort, p.SourceChannel)
	if err == nil && res.Result == chantypes.SUCCESS {
		verif.Reach("acknowledged")
		verif.Assert(found && p.Sequence == next, "ordered acknowledgement only of the next expected sequence")
		verif.Assert(after == next+1, "nextSequenceAck advances by exactly one")
		verif.Assert(verif.CallCount("OnAcknowledgementPacket") == 1, "callback called exactly once")
	} else {
		verif.Assert(verif.CallCount("OnAcknowledgementPacket") == 0 || err != nil, "no callback without success")
		if verif.CallCount("OnAcknowledgementPacket") == 0 {
			verif.Assert(after == next, "counter unchanged when the acknowledgement is not processed")
		}
	}
}

// HarnessUnorderedLeavesCounters: UNORDERED traffic never touches the ordered counters.
func HarnessUnorderedLeavesCounters() {
	s := corekit.RecvSide()
	w, p := s.W, s.P
	verif.Assume(s.Ch.Ordering == chantypes.UNORDERED)
	next, _ := w.IBC.ChannelKeeper.GetNextSequenceRecv(w.Ctx, p.DestinationPort, p.DestinationChannel)
	_, _ = w.IBC.RecvPacket(w.Ctx, s.RecvMsg())
	after, _ := w.IBC.ChannelKeeper.GetNextSequenceRecv(w.Ctx, p.DestinationPort, p.DestinationChannel)
	verif.Reach("returned")
	verif.Assert(after == next, "unordered receive leaves nextSequenceRecv unchanged")
}
