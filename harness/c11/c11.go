// Package c11: each received packet gets at most one, immutable acknowledgement.
package c11

import (
	"bytes"

	chantypes "github.com/cosmos/ibc-go/v11/modules/core/04-channel/types"
	v2 "github.com/cosmos/ibc-go/v11/modules/core/04-channel/v2/types"
	host "github.com/cosmos/ibc-go/v11/modules/core/24-host"
	hostv2 "github.com/cosmos/ibc-go/v11/modules/core/24-host/v2"

	"verifharness/corekit"
	"verifharness/models"
	"verifharness/verif"
)

// HarnessV1WriteAckOnce: WriteAcknowledgement fails and changes nothing when an acknowledgement is already stored for
// (dest port, dest channel, sequence); on success it stores exactly hash(ack bytes) at that key.
func HarnessV1WriteAckOnce() {
	s := corekit.RecvSide()
	w, p := s.W, s.P
	before, _ := w.IBC.ChannelKeeper.GetPacketAcknowledgement(w.Ctx, p.DestinationPort, p.DestinationChannel, p.Sequence)
	snap := verif.StSnapshot(w.Ctx, "ibc")
	ack := models.SymAck{Ok: verif.Bool("ackOk"), Bz: verif.Bytes("ackBz")}
	err := w.IBC.ChannelKeeper.WriteAcknowledgement(w.Ctx, p, ack)
	verif.Reach("returned")
	if len(before) != 0 {
		verif.Reach("already acknowledged")
		verif.Assert(err != nil, "a second acknowledgement for the same packet is rejected")
		verif.Assert(verif.StEqual(w.Ctx, "ibc", snap), "and the stored acknowledgement is not replaced")
	}
	if err == nil {
		verif.Reach("written")
		verif.Assert(len(before) == 0, "an acknowledgement is written only if none existed")
		after, _ := w.IBC.ChannelKeeper.GetPacketAcknowledgement(w.Ctx, p.DestinationPort, p.DestinationChannel, p.Sequence)
		verif.Assert(bytes.Equal(after, chantypes.CommitAcknowledgement(ack.Bz)) && len(ack.Bz) > 0, "the stored value is the hash of the non-empty acknowledgement bytes")
		verif.Assert(verif.StEqualExcept(w.Ctx, "ibc", snap, host.PacketAcknowledgementKey(p.DestinationPort, p.DestinationChannel, p.Sequence)), "only this packet's acknowledgement key is written")
		verif.Assert(s.Ch.State == chantypes.OPEN, "only on an OPEN channel")
	} else {
		verif.Assert(verif.StEqual(w.Ctx, "ibc", snap), "a failed write changes nothing")
	}
}

// HarnessV1RecvKeepsExistingAck: a receive never replaces an acknowledgement that is already stored for the packet.
func HarnessV1RecvKeepsExistingAck() {
	s := corekit.RecvSide()
	w, p := s.W, s.P
	before, _ := w.IBC.ChannelKeeper.GetPacketAcknowledgement(w.Ctx, p.DestinationPort, p.DestinationChannel, p.Sequence)
	verif.Assume(len(before) != 0)
	_, _ = w.IBC.RecvPacket(w.Ctx, s.RecvMsg())
	verif.Reach("returned")
	after, _ := w.IBC.ChannelKeeper.GetPacketAcknowledgement(w.Ctx, p.DestinationPort, p.DestinationChannel, p.Sequence)
	verif.Assert(bytes.Equal(before, after), "an existing acknowledgement is never overwritten by a receive")
}

// HarnessV2AsyncAckOnce: the v2 asynchronous WriteAcknowledgement succeeds only for a recorded async packet that has a
// receipt and no acknowledgement yet; it writes the acknowledgement once and removes the async record.
func HarnessV2AsyncAckOnce() {
	s := corekit.RecvSideV2(1, 2)
	w, p := s.W, s.P
	k := w.IBC.ChannelKeeperV2
	// pre-state: an arbitrary async record may or may not exist; when we need one we store the packet itself
	if verif.Bool("recorded") {
		k.SetAsyncPacket(w.Ctx, s.Local, p.Sequence, p)
	}
	rec, recorded := k.GetAsyncPacket(w.Ctx, s.Local, p.Sequence)
	// representation invariant of the async table (only SetAsyncPacket(dest client, sequence, packet) writes it)
	verif.Assume(!recorded || (rec.DestinationClient == s.Local && rec.Sequence == p.Sequence))
	ackBefore := k.GetPacketAcknowledgement(w.Ctx, s.Local, p.Sequence)
	_, hasReceipt := k.GetPacketReceipt(w.Ctx, s.Local, p.Sequence)
	snap := verif.StSnapshot(w.Ctx, "ibc")
	ack := v2.Acknowledgement{}
	na := verif.Len("acks", 1, 2)
	for i := 0; i < na; i++ {
		ack.AppAcknowledgements = append(ack.AppAcknowledgements, verif.Bytes("ack"+string(rune('0'+i))))
	}
	err := k.WriteAcknowledgement(w.Ctx, s.Local, p.Sequence, ack)
	verif.Reach("returned")
	if err == nil {
		verif.Reach("written")
		verif.Assert(recorded, "async acknowledgement only for a recorded async packet")
		verif.Assert(len(ackBefore) == 0, "only if no acknowledgement existed")
		verif.Assert(hasReceipt, "only if the packet was received")
		verif.Assert(bytes.Equal(k.GetPacketAcknowledgement(w.Ctx, s.Local, p.Sequence), v2.CommitAcknowledgement(ack)), "the commitment of the given acknowledgement is stored")
		_, still := k.GetAsyncPacket(w.Ctx, s.Local, p.Sequence)
		verif.Assert(!still, "the async record is removed, so the acknowledgement cannot be written twice")
		verif.Assert(verif.StEqualExcept(w.Ctx, "ibc", snap, hostv2.PacketAcknowledgementKey(s.Local, p.Sequence), v2.AsyncPacketKey(s.Local, p.Sequence)), "nothing else is written")
	} else {
		verif.Assert(verif.StEqual(w.Ctx, "ibc", snap), "a failed async acknowledgement changes nothing")
	}
	if len(ackBefore) != 0 {
		verif.Assert(err != nil, "an existing v2 acknowledgement is never replaced")
	}
}
