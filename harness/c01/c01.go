// Package c01: exactly-once packet delivery under any relay history (one inductive step from an arbitrary store).
package c01

import (
	clienttypes "github.com/cosmos/ibc-go/v11/modules/core/02-client/types"
	conntypes "github.com/cosmos/ibc-go/v11/modules/core/03-connection/types"
	chantypes "github.com/cosmos/ibc-go/v11/modules/core/04-channel/types"
	host "github.com/cosmos/ibc-go/v11/modules/core/24-host"

	"verifharness/models"
	"verifharness/verif"
)


func height(n string) clienttypes.Height {
	return clienttypes.NewHeight(verif.Uint64(n+".rev"), verif.Uint64(n+".h"))
}

// symPacket: every field symbolic except the destination port, which is the port the symbolic application is bound to.
func symPacket() chantypes.Packet {
	return chantypes.Packet{
		Sequence: verif.Uint64("seq"), SourcePort: verif.String("srcPort"), SourceChannel: verif.String("srcChan"),
		DestinationPort: models.AppPort, DestinationChannel: verif.String("dstChan"),
		Data: verif.Bytes("data"), TimeoutHeight: height("timeoutHeight"), TimeoutTimestamp: verif.Uint64("timeoutTs"),
	}
}

// v1 world: module params as genesis sets them, an arbitrary connection over the routed client, an arbitrary
// channel end of the given ordering at the packet's destination; every other key of the store is arbitrary.
func setup(ordering chantypes.Order) (*models.World, chantypes.Packet, *chantypes.MsgRecvPacket, chantypes.Channel) {
	w := models.NewWorld()
	w.SetParams()
	p := symPacket()
	connID, _ := w.SymConnection("conn")
	ch := w.SymChannel("chan", p.DestinationPort, p.DestinationChannel, connID)
	verif.Assume(ch.Ordering == ordering)
	msg := &chantypes.MsgRecvPacket{Packet: p, ProofCommitment: verif.Bytes("proof"), ProofHeight: height("proofHeight"), Signer: models.Relayer}
	return w, p, msg, ch
}

// HarnessV1UnorderedReplayIsNoop: a packet whose receipt is already stored is never delivered again:
// the message fails or is a NOOP, the application is not called and no store changes, from any pre-state.
func HarnessV1UnorderedReplayIsNoop() {
	w, p, msg, _ := setup(chantypes.UNORDERED)
	_, received := w.IBC.ChannelKeeper.GetPacketReceipt(w.Ctx, p.DestinationPort, p.DestinationChannel, p.Sequence)
	verif.Assume(received)
	snap := verif.StSnapshot(w.Ctx, "ibc")
	snapApp := verif.StSnapshot(w.Ctx, "app")
	res, err := w.IBC.RecvPacket(w.Ctx, msg)
	verif.Reach("returned")
	if err == nil {
		verif.Reach("noop returned")
		verif.Assert(res.Result == chantypes.NOOP, "replayed packet yields NOOP")
	}
	verif.Assert(verif.CallCount("OnRecvPacket") == 0, "application is not called for a replayed packet")
	verif.Assert(verif.StEqual(w.Ctx, "ibc", snap), "replay changes no IBC state")
	verif.Assert(verif.StEqual(w.Ctx, "app", snapApp), "replay changes no application state")
}

// HarnessV1OrderedReplayIsNoop: on an ORDERED channel a sequence below nextSequenceRecv is never delivered again.
func HarnessV1OrderedReplayIsNoop() {
	w, p, msg, _ := setup(chantypes.ORDERED)
	next, found := w.IBC.ChannelKeeper.GetNextSequenceRecv(w.Ctx, p.DestinationPort, p.DestinationChannel)
	verif.Assume(found && p.Sequence < next)
	snap := verif.StSnapshot(w.Ctx, "ibc")
	res, err := w.IBC.RecvPacket(w.Ctx, msg)
	verif.Reach("returned")
	if err == nil {
		verif.Reach("noop returned")
		verif.Assert(res.Result == chantypes.NOOP, "already-received ordered packet yields NOOP")
	}
	verif.Assert(verif.CallCount("OnRecvPacket") == 0, "application is not called for an already-received ordered packet")
	verif.Assert(verif.StEqual(w.Ctx, "ibc", snap), "no IBC state change")
}

// HarnessV1UnorderedSuccessMarks: SUCCESS on an UNORDERED channel implies the receipt was absent before,
// is present afterwards at exactly (destPort, destChannel, sequence), and the application ran exactly once.
func HarnessV1UnorderedSuccessMarks() {
	w, p, msg, _ := setup(chantypes.UNORDERED)
	_, before := w.IBC.ChannelKeeper.GetPacketReceipt(w.Ctx, p.DestinationPort, p.DestinationChannel, p.Sequence)
	snap := verif.StSnapshot(w.Ctx, "ibc")
	res, err := w.IBC.RecvPacket(w.Ctx, msg)
	if err == nil && res.Result == chantypes.SUCCESS {
		verif.Reach("delivered")
		verif.Assert(!before, "a delivered packet had no receipt before")
		_, after := w.IBC.ChannelKeeper.GetPacketReceipt(w.Ctx, p.DestinationPort, p.DestinationChannel, p.Sequence)
		verif.Assert(after, "delivery stores the receipt")
		verif.Assert(verif.CallCount("OnRecvPacket") == 1, "application called exactly once on delivery")
		verif.Assert(verif.StEqualExcept(w.Ctx, "ibc", snap,
			host.PacketReceiptKey(p.DestinationPort, p.DestinationChannel, p.Sequence),
			host.PacketAcknowledgementKey(p.DestinationPort, p.DestinationChannel, p.Sequence)),
			"delivery writes only this packet's receipt and acknowledgement")
		verif.Assert(verif.CallCount("VerifyMembership") == 1, "delivery requires exactly one membership proof")
	} else {
		verif.Reach("not delivered")
		verif.Assert(verif.CallCount("OnRecvPacket") == 0 || err != nil, "application not called unless delivered")
	}
	if err != nil {
		verif.Assert(verif.StEqual(w.Ctx, "ibc", snap) || verif.CallCount("OnRecvPacket") == 1, "a failed receive before the callback changes no IBC state")
	}
}

// HarnessV1OrderedSuccessMarks: SUCCESS on an ORDERED channel implies seq == nextSequenceRecv before and nextSequenceRecv == seq+1 after.
func HarnessV1OrderedSuccessMarks() {
	w, p, msg, _ := setup(chantypes.ORDERED)
	next, found := w.IBC.ChannelKeeper.GetNextSequenceRecv(w.Ctx, p.DestinationPort, p.DestinationChannel)
	res, err := w.IBC.RecvPacket(w.Ctx, msg)
	if err == nil && res.Result == chantypes.SUCCESS {
		verif.Reach("delivered")
		verif.Assert(found && p.Sequence == next, "ordered delivery only at the expected sequence")
		after, _ := w.IBC.ChannelKeeper.GetNextSequenceRecv(w.Ctx, p.DestinationPort, p.DestinationChannel)
		verif.Assert(after == p.Sequence+1, "ordered delivery advances nextSequenceRecv by one")
		verif.Assert(verif.CallCount("OnRecvPacket") == 1, "application called exactly once on ordered delivery")
	}
}

var _ = conntypes.OPEN
