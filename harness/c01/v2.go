package c01

import (
	v2 "github.com/cosmos/ibc-go/v11/modules/core/04-channel/v2/types"
	hostv2 "github.com/cosmos/ibc-go/v11/modules/core/24-host/v2"

	"verifharness/models"
	"verifharness/verif"
)

func symPayload(n string) v2.Payload {
	return v2.Payload{SourcePort: verif.String(n + ".srcPort"), DestinationPort: models.AppPort, Version: verif.String(n + ".version"),
		Encoding: verif.String(n + ".encoding"), Value: verif.Bytes(n + ".value")}
}

// setupV2: destination is either the routed client itself or a channel alias that resolves to it.
func setupV2() (*models.World, v2.Packet, *v2.MsgRecvPacket) {
	w := models.NewWorld()
	w.SetParams()
	dest := models.ClientID
	viaAlias := verif.Choice("viaAlias", 2) == 1
	if viaAlias {
		dest = verif.String("alias")
		verif.Assume(dest != models.ClientID && dest != "")
	}
	w.SymCounterparty("cp", dest)
	if viaAlias {
		w.IBC.ChannelKeeperV2.SetClientForAlias(w.Ctx, dest, models.ClientID)
	} else {
		// representation invariant: aliases exist only for channel identifiers, never for a light-client identifier
		_, isAlias := w.IBC.ChannelKeeperV2.GetClientForAlias(w.Ctx, dest)
		verif.Assume(!isAlias)
	}
	p := v2.Packet{Sequence: verif.Uint64("seq"), SourceClient: verif.String("srcClient"), DestinationClient: dest, TimeoutTimestamp: verif.Uint64("timeout")}
	n := verif.Len("payloads", 1, 2)
	for i := 0; i < n; i++ {
		p.Payloads = append(p.Payloads, symPayload("pl"+string(rune('0'+i))))
	}
	msg := &v2.MsgRecvPacket{Packet: p, ProofCommitment: verif.Bytes("proof"), ProofHeight: height("proofHeight"), Signer: models.Relayer}
	return w, p, msg
}

// HarnessV2ReplayIsNoop: a v2 packet whose receipt exists (under its own destination id, alias or not) is never
// delivered again: NOOP or error, no application call, no proof requested, no state change.
func HarnessV2ReplayIsNoop() {
	w, p, msg := setupV2()
	verif.Assume(w.IBC.ChannelKeeperV2.HasPacketReceipt(w.Ctx, p.DestinationClient, p.Sequence))
	snap := verif.StSnapshot(w.Ctx, "ibc")
	res, err := w.IBC.ChannelKeeperV2.RecvPacket(w.Ctx, msg)
	verif.Reach("returned")
	if err == nil {
		verif.Reach("noop returned")
		verif.Assert(res.Result == v2.NOOP, "replayed v2 packet yields NOOP")
	}
	verif.Assert(verif.CallCount("V2.OnRecvPacket") == 0, "application is not called for a replayed v2 packet")
	verif.Assert(verif.StEqual(w.Ctx, "ibc", snap), "v2 replay changes no IBC state")
}

// HarnessV2SuccessMarks: SUCCESS implies no receipt before, receipt afterwards at (destination id, sequence),
// one proof on the resolved client, and the application called once per payload.
func HarnessV2SuccessMarks() {
	w, p, msg := setupV2()
	before := w.IBC.ChannelKeeperV2.HasPacketReceipt(w.Ctx, p.DestinationClient, p.Sequence)
	snap := verif.StSnapshot(w.Ctx, "ibc")
	res, err := w.IBC.ChannelKeeperV2.RecvPacket(w.Ctx, msg)
	if err == nil && res.Result == v2.SUCCESS {
		verif.Reach("delivered")
		verif.Assert(!before, "a delivered v2 packet had no receipt before")
		verif.Assert(w.IBC.ChannelKeeperV2.HasPacketReceipt(w.Ctx, p.DestinationClient, p.Sequence), "v2 delivery stores the receipt under the destination id")
		n := verif.CallCount("V2.OnRecvPacket")
		verif.Assert(n >= 1 && n <= len(p.Payloads), "application called at most once per payload (stops at the first failure)")
		verif.Assert(verif.CallCount("VerifyMembership") == 1, "v2 delivery requires exactly one membership proof")
		verif.Assert(verif.CallArgString("VerifyMembership", 0, 0) == models.ClientID, "the proof is verified by the resolved light client")
		verif.Assert(verif.StEqualExcept(w.Ctx, "ibc", snap,
			hostv2.PacketReceiptKey(p.DestinationClient, p.Sequence),
			hostv2.PacketAcknowledgementKey(p.DestinationClient, p.Sequence),
			v2.AsyncPacketKey(p.DestinationClient, p.Sequence)),
			"v2 delivery writes only this packet's receipt, acknowledgement and async record")
	} else if err != nil {
		verif.Reach("failed")
		verif.Assert(verif.StEqual(w.Ctx, "ibc", snap) || verif.CallCount("V2.OnRecvPacket") > 0, "a v2 receive failing before the callbacks changes no IBC state")
	}
}
