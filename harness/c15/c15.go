// Package c15: generated identifiers are unique (one counter, bumped by one) and parse back to their parts.
package c15

import (
	"math"
	"strings"

	clienttypes "github.com/cosmos/ibc-go/v11/modules/core/02-client/types"
	conntypes "github.com/cosmos/ibc-go/v11/modules/core/03-connection/types"
	chantypes "github.com/cosmos/ibc-go/v11/modules/core/04-channel/types"
	host "github.com/cosmos/ibc-go/v11/modules/core/24-host"

	"verifharness/models"
	"verifharness/verif"
)

// HarnessClientIDRoundTrip: for every client type accepted by ValidateClientType and every sequence, the formatted
// identifier passes the chain's identifier validation and parses back to exactly (type, sequence).
// (not registered: the identifier-format regular expressions over a symbolic client type leave even the reachability
// query undecided within minutes on all three solvers; kept for reference, see DESIGN.md 0.6 on seed C15-a)
func exploratoryClientIDRoundTrip() {
	verif.NoPanic()
	verif.ExactDecimalLengths(true)
	t := verif.String("clientType")
	n := verif.Uint64("sequence")
	if verif.Choice("dashes", 2) == 0 {
		verif.Assume(!strings.Contains(t, "-")) // client types without a dash
	} else {
		a, b := verif.String("typeHead"), verif.String("typeTail") // client types with exactly one dash, e.g. 07-tendermint
		verif.Assume(!strings.Contains(a, "-") && !strings.Contains(b, "-"))
		t = a + "-" + b
	}
	verif.Assume(clienttypes.ValidateClientType(t) == nil)
	id := clienttypes.FormatClientIdentifier(t, n)
	verif.Reach("formatted")
	verif.Assert(host.ClientIdentifierValidator(id) == nil, "a generated client identifier passes identifier validation")
	gotType, gotSeq, err := clienttypes.ParseClientIdentifier(id)
	verif.Assert(err == nil, "a generated client identifier parses")
	if err == nil {
		verif.Assert(gotType == t, "parsed client type equals the original")
		verif.Assert(gotSeq == n, "parsed sequence equals the original")
	}
	verif.Assert(clienttypes.IsValidClientID(id), "IsValidClientID accepts generated identifiers")
}

// HarnessClientIDLength: for every client type accepted by ValidateClientType (any length, any characters) and every
// sequence, the formatted identifier respects the identifier length limits of the chain (4..64 characters) — the part
// of validation that depends on the digit count of the sequence.
// (not registered, same reason)
func exploratoryClientIDLength() {
	verif.NoPanic()
	verif.ExactDecimalLengths(true)
	t := verif.String("clientType")
	n := verif.Uint64("sequence")
	verif.Assume(clienttypes.ValidateClientType(t) == nil)
	id := clienttypes.FormatClientIdentifier(t, n)
	verif.Reach("formatted")
	verif.Assert(len(id) >= 4 && len(id) <= host.DefaultMaxCharacterLength, "a generated client identifier respects the identifier length limits")
	verif.Assert(!strings.Contains(id, "/"), "and contains no path separator")
}

// HarnessConnChanRoundTrip: connection-N / channel-N identifiers validate and parse back to N for every N.
func HarnessConnChanRoundTrip() {
	verif.NoPanic()
	n := verif.Uint64("sequence")
	c := conntypes.FormatConnectionIdentifier(n)
	verif.Assert(host.ConnectionIdentifierValidator(c) == nil, "generated connection identifier is valid")
	verif.Assert(conntypes.IsValidConnectionID(c), "IsValidConnectionID accepts it")
	got, err := conntypes.ParseConnectionSequence(c)
	verif.Assert(err == nil && got == n, "connection identifier parses back to its sequence")
	ch := chantypes.FormatChannelIdentifier(n)
	verif.Assert(host.ChannelIdentifierValidator(ch) == nil, "generated channel identifier is valid")
	verif.Assert(chantypes.IsValidChannelID(ch), "IsValidChannelID accepts it")
	got2, err2 := chantypes.ParseChannelSequence(ch)
	verif.Assert(err2 == nil && got2 == n, "channel identifier parses back to its sequence")
	verif.Reach("end")
}

// HarnessDistinctSequencesDistinctIDs: different sequences give different identifiers (same type).
func HarnessDistinctSequencesDistinctIDs() {
	t := verif.String("clientType")
	n, m := verif.Uint64("n"), verif.Uint64("m")
	verif.Assume(n != m)
	verif.Assert(clienttypes.FormatClientIdentifier(t, n) != clienttypes.FormatClientIdentifier(t, m), "distinct sequences give distinct client identifiers")
	verif.Assert(conntypes.FormatConnectionIdentifier(n) != conntypes.FormatConnectionIdentifier(m), "distinct sequences give distinct connection identifiers")
	verif.Assert(chantypes.FormatChannelIdentifier(n) != chantypes.FormatChannelIdentifier(m), "distinct sequences give distinct channel identifiers")
	verif.Reach("end")
}

// HarnessGenerateBumpsCounter: each Generate*Identifier returns format(counter) and advances exactly its own counter by one.
func HarnessGenerateBumpsCounter() {
	w := models.NewWorld()
	t := verif.String("clientType")
	which := verif.Choice("kind", 3)
	snap := verif.StSnapshot(w.Ctx, "ibc")
	switch which {
	case 0:
		pre := w.IBC.ClientKeeper.GetNextClientSequence(w.Ctx)
		verif.Assume(pre < math.MaxUint64)
		id := w.IBC.ClientKeeper.GenerateClientIdentifier(w.Ctx, t)
		verif.Assert(id == clienttypes.FormatClientIdentifier(t, pre), "client identifier is built from the stored counter")
		verif.Assert(w.IBC.ClientKeeper.GetNextClientSequence(w.Ctx) == pre+1, "client counter advances by one")
		verif.Assert(verif.StEqualExcept(w.Ctx, "ibc", snap, []byte(clienttypes.KeyNextClientSequence)), "only the client counter is written")
	case 1:
		pre := w.IBC.ConnectionKeeper.GetNextConnectionSequence(w.Ctx)
		verif.Assume(pre < math.MaxUint64)
		id := w.IBC.ConnectionKeeper.GenerateConnectionIdentifier(w.Ctx)
		verif.Assert(id == conntypes.FormatConnectionIdentifier(pre), "connection identifier is built from the stored counter")
		verif.Assert(w.IBC.ConnectionKeeper.GetNextConnectionSequence(w.Ctx) == pre+1, "connection counter advances by one")
		verif.Assert(verif.StEqualExcept(w.Ctx, "ibc", snap, []byte(conntypes.KeyNextConnectionSequence)), "only the connection counter is written")
	case 2:
		pre := w.IBC.ChannelKeeper.GetNextChannelSequence(w.Ctx)
		verif.Assume(pre < math.MaxUint64)
		id := w.IBC.ChannelKeeper.GenerateChannelIdentifier(w.Ctx)
		verif.Assert(id == chantypes.FormatChannelIdentifier(pre), "channel identifier is built from the stored counter")
		verif.Assert(w.IBC.ChannelKeeper.GetNextChannelSequence(w.Ctx) == pre+1, "channel counter advances by one")
		verif.Assert(verif.StEqualExcept(w.Ctx, "ibc", snap, []byte(chantypes.KeyNextChannelSequence)), "only the channel counter is written")
	}
	verif.Reach("end")
}

// HarnessParseRejectsNon64Bit: Parse* accept only digit suffixes that ParseUint accepts and return its value.
func HarnessParseAcceptsOnlyFormatted() {
	verif.NoPanic()
	s := verif.String("id")
	if n, err := chantypes.ParseChannelSequence(s); err == nil {
		verif.Reach("channel id parsed")
		verif.Assert(len(s) > len("channel-"), "parsed channel identifier has a numeric suffix")
		_ = n
	}
	if n, err := conntypes.ParseConnectionSequence(s); err == nil {
		verif.Reach("connection id parsed")
		_ = n
	}
}
