package verif

import (
	"github.com/cosmos/cosmos-sdk/codec"
	codectypes "github.com/cosmos/cosmos-sdk/codec/types"
	"github.com/cosmos/cosmos-sdk/crypto/keys/secp256k1"
	cryptotypes "github.com/cosmos/cosmos-sdk/crypto/types"
	"github.com/cosmos/cosmos-sdk/types/tx/signing"
)

// The idealised signer: one key pair; Sign(msg) is the only way to obtain a signature, and the public key accepts a
// signature only for the message it was made for (engine: uninterpreted sig(msg); native: real secp256k1).
var signerKey = secp256k1.GenPrivKeyFromSecret([]byte("verif solo machine signer"))

// SignerPubKey is the signer's public key.
func SignerPubKey() cryptotypes.PubKey { return signerKey.PubKey() }

// Sign signs msg with the signer's key.
func Sign(msg []byte) []byte {
	sig, err := signerKey.Sign(msg)
	if err != nil {
		panic(err)
	}
	return sig
}

// SignatureData is the wire form (SignatureDescriptor_Data) of a single signature.
func SignatureData(sig []byte) []byte {
	data := signing.SignatureDataToProto(&signing.SingleSignatureData{SignMode: signing.SignMode_SIGN_MODE_UNSPECIFIED, Signature: sig})
	return codec.NewProtoCodec(codectypes.NewInterfaceRegistry()).MustMarshal(data)
}
