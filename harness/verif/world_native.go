package verif

// Native (replay) implementations of the world intrinsics. Store-based harnesses are replayed against the
// SDK's real multistore; the replay file carries the pre-state as (store, key, value) reads, and for values
// that the symbolic run decoded, the decoded field values, from which real protobuf bytes are rebuilt here.

import (
	"bytes"
	"context"
	"encoding/hex"
	"encoding/json"
	"fmt"
	"math/big"
	"reflect"
	"strconv"
	"strings"
	"time"

	corestore "cosmossdk.io/core/store"
	"cosmossdk.io/log/v2"
	sdkmath "cosmossdk.io/math"
	cmtproto "github.com/cometbft/cometbft/proto/tendermint/types"
	dbm "github.com/cosmos/cosmos-db"
	"github.com/cosmos/cosmos-sdk/codec"
	codectypes "github.com/cosmos/cosmos-sdk/codec/types"
	"github.com/cosmos/cosmos-sdk/store/v2"
	storetypes "github.com/cosmos/cosmos-sdk/store/v2/types"
	sdk "github.com/cosmos/cosmos-sdk/types"
	"github.com/cosmos/gogoproto/proto"
)

type readRec struct {
	Store string `json:"store"`
	Key   string `json:"key"`
	Val   string `json:"val"`
}
type decodeRec struct {
	Bz     string                     `json:"bz"`
	Type   string                     `json:"type"`
	Fields map[string]json.RawMessage `json:"fields"`
}
type worldFile struct {
	Reads   []readRec   `json:"reads"`
	Decodes []decodeRec `json:"decodes"`
}

var (
	storeKeys = map[string]*storetypes.KVStoreKey{}
	typeReg   = map[string]reflect.Type{}
	snapshots []map[string][]byte
	callLog   []struct {
		name string
		args []any
	}
	// InterfaceRegistry is built on first use by RegistryBuilder, which the models package sets (ibc-go's interface implementations).
	InterfaceRegistry codectypes.InterfaceRegistry
	RegistryBuilder   func() codectypes.InterfaceRegistry
)

// RegisterType tells the native replay which Go type a stored value decodes to (engine: no-op).
func RegisterType(msg any) {
	t := reflect.TypeOf(msg)
	for t.Kind() == reflect.Ptr {
		t = t.Elem()
	}
	typeReg[t.PkgPath()+"."+t.Name()] = t
}

func sanitize(s string) string {
	r := strings.NewReplacer("/", "_", ".", "_", "*", "", "-", "_", "[", "_", "]", "_", " ", "", ",", "_", "(", "", ")", "")
	return r.Replace(s)
}

func shortType(full string) string {
	s := strings.ReplaceAll(full, "github.com/cosmos/ibc-go/v11/modules/", "")
	s = strings.ReplaceAll(s, "github.com/cosmos/", "")
	return sanitize(s)
}

func loadWorld() *worldFile {
	load()
	w := &worldFile{}
	if p := replayPath(); p != "" {
		if bz, err := osReadFile(); err == nil {
			_ = json.Unmarshal(bz, w)
		}
	}
	return w
}

func jsonU64(r json.RawMessage) (uint64, bool) {
	var m map[string]any
	if json.Unmarshal(r, &m) != nil {
		return 0, false
	}
	if s, ok := m["bv"].(string); ok {
		v, _ := strconv.ParseUint(s, 10, 64)
		return v, true
	}
	if s, ok := m["int"].(string); ok {
		b, _ := new(big.Int).SetString(s, 10)
		return b.Uint64(), true
	}
	return 0, false
}

func jsonBytes(r json.RawMessage) ([]byte, bool) {
	var m map[string]any
	if json.Unmarshal(r, &m) != nil {
		return nil, false
	}
	if s, ok := m["bytes"].(string); ok {
		b, _ := hex.DecodeString(s)
		return b, true
	}
	return nil, false
}

// fill sets v (addressable) from the decoded field map, following the engine's path naming.
func fill(v reflect.Value, path string, f map[string]json.RawMessage) {
	t := v.Type()
	if t == reflect.TypeOf(time.Time{}) {
		sec, ok1 := jsonU64(f[path+"#sec"])
		nsec, ok2 := jsonU64(f[path+"#nsec"])
		if ok1 || ok2 {
			v.Set(reflect.ValueOf(time.Unix(int64(sec), int64(nsec)).UTC()))
		}
		return
	}
	if t == reflect.TypeOf(sdkmath.Int{}) {
		var m map[string]any
		if json.Unmarshal(f[path], &m) == nil {
			if str, ok := m["int"].(string); ok {
				if b, ok := new(big.Int).SetString(str, 10); ok {
					v.Set(reflect.ValueOf(sdkmath.NewIntFromBigInt(b)))
				}
			}
		}
		return
	}
	switch t.Kind() {
	case reflect.Struct:
		for i := 0; i < t.NumField(); i++ {
			name := t.Field(i).Name
			if strings.HasPrefix(name, "XXX_") || name == "cachedValue" || !v.Field(i).CanSet() {
				continue
			}
			fill(v.Field(i), path+"_"+name, f)
		}
	case reflect.Bool:
		var b bool
		if json.Unmarshal(f[path], &b) == nil {
			v.SetBool(b)
		}
	case reflect.Int, reflect.Int8, reflect.Int16, reflect.Int32, reflect.Int64:
		if n, ok := jsonU64(f[path]); ok {
			bits := t.Bits()
			v.SetInt(int64(n<<(64-uint(bits))) >> (64 - uint(bits)))
		}
	case reflect.Uint, reflect.Uint8, reflect.Uint16, reflect.Uint32, reflect.Uint64:
		if n, ok := jsonU64(f[path]); ok {
			v.SetUint(n)
		}
	case reflect.String:
		if b, ok := jsonBytes(f[path]); ok {
			v.SetString(string(b))
		}
	case reflect.Slice:
		if t.Elem().Kind() == reflect.Uint8 {
			if b, ok := jsonBytes(f[path]); ok && len(b) > 0 {
				v.SetBytes(b)
			}
			return
		}
		n, _ := jsonU64(f["#len"+path])
		s := reflect.MakeSlice(t, int(n), int(n))
		for i := 0; i < int(n); i++ {
			fill(s.Index(i), fmt.Sprintf("%s_%d", path, i), f)
		}
		if n > 0 {
			v.Set(s)
		}
	case reflect.Ptr:
		if t.Elem().Kind() == reflect.Struct {
			nv := reflect.New(t.Elem())
			fill(nv.Elem(), path, f)
			v.Set(nv)
		}
	case reflect.Array:
		for i := 0; i < t.Len(); i++ {
			fill(v.Index(i), fmt.Sprintf("%s_%d", path, i), f)
		}
	}
}

// concretise turns an abstract encoding from the solver model into real protobuf bytes.
func concretise(w *worldFile, abstract []byte) []byte {
	for _, d := range w.Decodes {
		bz, _ := hex.DecodeString(d.Bz)
		if !bytes.Equal(bz, abstract) {
			continue
		}
		t, ok := typeReg[d.Type]
		if !ok {
			continue
		}
		nv := reflect.New(t)
		fill(nv.Elem(), "_"+shortType(d.Type), d.Fields)
		out, err := proto.Marshal(nv.Interface().(proto.Message))
		if err != nil {
			panic(err)
		}
		return out
	}
	return abstract
}

func storeKey(name string) *storetypes.KVStoreKey {
	k, ok := storeKeys[name]
	if !ok {
		panic("native replay: store " + name + " not mounted (verif.MountStores)")
	}
	return k
}

var mountNames = []string{"ibc", "client", "transfer", "bank", "ratelimit", "icahost", "icacontroller", "gmp", "pfm", "callbacks", "wasm", "app"}

// MountStores adds store names that the native context must mount (engine: no-op).
func MountStores(names ...string) { mountNames = append(mountNames, names...) }

func nativeNewCtx() sdk.Context {
	w := loadWorld()
	db := dbm.NewMemDB()
	cms := store.NewCommitMultiStore(db, log.NewNopLogger())
	storeKeys = map[string]*storetypes.KVStoreKey{}
	for _, n := range mountNames {
		if _, ok := storeKeys[n]; !ok {
			storeKeys[n] = storetypes.NewKVStoreKey(n)
			cms.MountStoreWithDB(storeKeys[n], storetypes.StoreTypeIAVL, db)
		}
	}
	if err := cms.LoadLatestVersion(); err != nil {
		panic(err)
	}
	name := key("ctx")
	h := int64(rawU64named(name + ".height"))
	tsec := int64(rawU64named(name + ".timeSec"))
	tnsec := int64(rawU64named(name + ".timeNsec"))
	chain := "chain-" + strconv.FormatUint(rawU64named(name+".rev"), 10)
	ctx := sdk.NewContext(cms, cmtproto.Header{Height: h, Time: time.Unix(tsec, tnsec).UTC(), ChainID: chain}, false, log.NewNopLogger())
	for _, r := range w.Reads {
		k, _ := hex.DecodeString(r.Key)
		v, _ := hex.DecodeString(r.Val)
		if len(v) == 0 || len(k) == 0 {
			continue
		}
		ctx.KVStore(storeKey(r.Store)).Set(k, concretise(w, v))
	}
	snapshots = nil
	callLog = nil
	return ctx
}

func rawU64named(name string) uint64 {
	load()
	if r, ok := replay.Values[name]; ok {
		v, _ := jsonU64(r)
		return v
	}
	return 0
}

func rawBytesNamed(name string) []byte {
	load()
	if r, ok := replay.Values[name]; ok {
		b, _ := jsonBytes(r)
		return b
	}
	return nil
}

func kv(ctx context.Context, name string) storetypes.KVStore {
	return sdk.UnwrapSDKContext(ctx).KVStore(storeKey(name))
}

func nativeStGet(ctx context.Context, name string, key []byte) []byte { return kv(ctx, name).Get(key) }
func nativeStSet(ctx context.Context, name string, key, val []byte) {
	if val == nil {
		kv(ctx, name).Delete(key)
		return
	}
	kv(ctx, name).Set(key, val)
}

func dump(ctx context.Context, name string) map[string][]byte {
	m := map[string][]byte{}
	it := kv(ctx, name).Iterator(nil, nil)
	defer it.Close()
	for ; it.Valid(); it.Next() {
		m[string(it.Key())] = append([]byte{}, it.Value()...)
	}
	return m
}

func nativeSnapshot(ctx context.Context, name string) int {
	snapshots = append(snapshots, dump(ctx, name))
	return len(snapshots) - 1
}

func nativeEqualExcept(ctx context.Context, name string, snap int, keys [][]byte) bool {
	cur, old := dump(ctx, name), snapshots[snap]
	skip := map[string]bool{}
	for _, k := range keys {
		skip[string(k)] = true
	}
	for k, v := range cur {
		if !skip[k] && !bytes.Equal(old[k], v) {
			return false
		}
	}
	for k := range old {
		if _, ok := cur[k]; !ok && !skip[k] {
			return false
		}
	}
	return true
}

func nativeSnapGet(snap int, key []byte) []byte { return snapshots[snap][string(key)] }

func nativeCodec() *codec.ProtoCodec {
	if InterfaceRegistry == nil {
		if RegistryBuilder != nil {
			InterfaceRegistry = RegistryBuilder()
		} else {
			InterfaceRegistry = codectypes.NewInterfaceRegistry()
		}
	}
	return codec.NewProtoCodec(InterfaceRegistry)
}

func nativeDecode(bz []byte, ptr any) {
	if err := nativeCodec().Unmarshal(bz, ptr.(proto.Message)); err != nil {
		panic(err)
	}
}
func nativeEncode(ptr any) []byte { return nativeCodec().MustMarshal(ptr.(proto.Message)) }
func nativeDecodeIface(bz []byte, ptr any) {
	if err := nativeCodec().UnmarshalInterface(bz, ptr); err != nil {
		panic(err)
	}
}
func nativeEncodeIface(v any) []byte {
	bz, err := nativeCodec().MarshalInterface(v.(proto.Message))
	if err != nil {
		panic(err)
	}
	return bz
}
func nativeUnpackAny(a *codectypes.Any, iface any) error { return nativeCodec().UnpackAny(a, iface) }

func nativeLogCall(name string, args []any) {
	callLog = append(callLog, struct {
		name string
		args []any
	}{name, args})
}
func nativeCallCount(name string) int {
	n := 0
	for _, c := range callLog {
		if c.name == name {
			n++
		}
	}
	return n
}
func nativeCallArg(name string, k, i int) any {
	for _, c := range callLog {
		if c.name == name {
			if k == 0 {
				return c.args[i]
			}
			k--
		}
	}
	panic("no such logged call " + name)
}

func nativeIterator(ctx context.Context, name string, start, end []byte, reverse bool) corestore.Iterator {
	if reverse {
		return kv(ctx, name).ReverseIterator(start, end)
	}
	return kv(ctx, name).Iterator(start, end)
}
