// Package verif is the harness API.
//
// Under the gosmt engine every function here is an intrinsic (the bodies are ignored): inputs become
// SMT variables, Assume extends the path condition, Assert becomes a solver obligation.
// Compiled natively (replay), the same functions read a counterexample file (VERIF_REPLAY) produced by
// the engine: inputs return the model's values, Assume aborts the replay when violated (the model was
// an artefact of an abstraction), Assert records a failure.
package verif

import (
	"encoding/hex"
	"encoding/json"
	"fmt"
	"math/big"
	"os"
	"strconv"
)

// ---- replay state (native only) ----

type replayFile struct {
	Property string                     `json:"property"`
	Harness  string                     `json:"harness"`
	Label    string                     `json:"label"`
	Values   map[string]json.RawMessage `json:"values"`
}

var (
	replay   *replayFile
	counters = map[string]int{}
	// Failures collects failed assertions during a native replay.
	Failures []string
)

type AssumeFailed struct{ Msg string }

func load() {
	if replay != nil {
		return
	}
	replay = &replayFile{Values: map[string]json.RawMessage{}}
	p := os.Getenv("VERIF_REPLAY")
	if p == "" {
		return
	}
	bz, err := os.ReadFile(p)
	if err != nil {
		panic(err)
	}
	if err := json.Unmarshal(bz, replay); err != nil {
		panic(err)
	}
}

// ReplayHarness names the harness the replay file is for ("" when not replaying).
func ReplayHarness() string { load(); return replay.Harness }

// ReplayLabel is the label of the failed obligation.
func ReplayLabel() string { load(); return replay.Label }

// Reset clears per-run replay state.
func Reset() { counters = map[string]int{}; Failures = nil }

func key(name string) string {
	n := counters[name]
	counters[name] = n + 1
	if n == 0 {
		return name
	}
	return fmt.Sprintf("%s#%d", name, n)
}

func raw(name string) (map[string]interface{}, bool) {
	load()
	r, ok := replay.Values[key(name)]
	if !ok {
		return nil, false
	}
	var m map[string]interface{}
	if err := json.Unmarshal(r, &m); err != nil {
		var b bool
		if json.Unmarshal(r, &b) == nil {
			return map[string]interface{}{"bool": b}, true
		}
		return nil, false
	}
	return m, true
}

func rawU64(name string) uint64 {
	m, ok := raw(name)
	if !ok {
		return 0
	}
	if s, ok := m["bv"].(string); ok {
		v, _ := strconv.ParseUint(s, 10, 64)
		return v
	}
	if s, ok := m["int"].(string); ok {
		b, _ := new(big.Int).SetString(s, 10)
		return b.Uint64()
	}
	return 0
}

// ---- symbolic inputs ----

func Uint64(name string) uint64 { return rawU64(name) }
func Int64(name string) int64   { return int64(rawU64(name)) }
func Uint32(name string) uint32 { return uint32(rawU64(name)) }
func Int32(name string) int32   { return int32(rawU64(name)) }
func Byte(name string) byte     { return byte(rawU64(name)) }
func Int(name string) int       { return int(int64(rawU64(name))) }
func Bool(name string) bool {
	m, ok := raw(name)
	if !ok {
		return false
	}
	b, _ := m["bool"].(bool)
	return b
}

// String is an arbitrary string (any length, bytes 0..255).
func String(name string) string { return string(Bytes(name)) }

// Bytes is an arbitrary byte string of any length (Seq mode: one SMT String term).
func Bytes(name string) []byte {
	m, ok := raw(name)
	if !ok {
		return nil
	}
	s, _ := m["bytes"].(string)
	b, _ := hex.DecodeString(s)
	return b
}

// BytesN is a byte slice of exactly n independent symbolic bytes (Vec mode).
func BytesN(name string, n int) []byte {
	out := make([]byte, n)
	for i := range out {
		out[i] = Byte(fmt.Sprintf("%s[%d]", name, i))
	}
	return out
}

// BigInt is an arbitrary mathematical integer as decimal string holder (used for sdkmath.Int inputs).
func IntString(name string) string {
	m, ok := raw(name)
	if !ok {
		return "0"
	}
	if s, ok := m["int"].(string); ok {
		return s
	}
	return "0"
}

// Len forks over the concrete values lo..hi (a stated list-length bound).
func Len(name string, lo, hi int) int {
	v := int(rawU64(name))
	if v < lo {
		return lo
	}
	if v > hi {
		return hi
	}
	return v
}

// Choice forks over 0..n-1.
func Choice(name string, n int) int { return Len(name, 0, n-1) }

// ---- obligations ----

func Assume(c bool) {
	if !c {
		panic(AssumeFailed{"assumption violated in replay"})
	}
}

func Assert(c bool, label string) {
	if !c {
		Failures = append(Failures, label)
	}
}

// Reach is a vacuity witness: the engine requires the path condition here to be satisfiable on some path.
func Reach(label string) {}

// Note records an observation in the evidence.
func Note(msg string) {}

// NoPanic: from here on an uncaught Go panic is a violated obligation (default: panics are modelled outcomes).
func NoPanic() {}

// Panics runs f and reports whether it panicked.
func Panics(f func()) (p bool) {
	defer func() {
		if r := recover(); r != nil {
			if af, ok := r.(AssumeFailed); ok {
				panic(af)
			}
			p = true
		}
	}()
	f()
	return false
}

// PermuteMaps makes every subsequent map range visit its entries in a solver-chosen order.
func PermuteMaps(on bool) {}

// Unwind sets the loop bound for this harness (per loop header visits).
func Unwind(n int) {}

// ---- uninterpreted helpers available to harness-side specs ----

// Sha256 is the same uninterpreted function the engine uses for crypto/sha256.Sum256.
func Sha256(b []byte) []byte { return sha256Native(b) }

// DecU64 formats n as decimal (the engine's dec UF).
func DecU64(n uint64) string { return strconv.FormatUint(n, 10) }
