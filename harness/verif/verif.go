// Package verif is the harness API.
//
// Under the gosmt engine every function here is an intrinsic (the bodies are ignored): inputs become
// SMT variables, Assume extends the path condition, Assert becomes a solver obligation.
// Compiled natively (replay), the same functions read a counterexample file (VERIF_REPLAY) produced by
// the engine: inputs return the model's values, Assume aborts the replay when violated (the model was
// an artefact of an abstraction), Assert records a failure.
package verif

import (
	"context"

	corestore "cosmossdk.io/core/store"
	sdkmath "cosmossdk.io/math"
	codectypes "github.com/cosmos/cosmos-sdk/codec/types"
	sdk "github.com/cosmos/cosmos-sdk/types"

	"encoding/hex"
	"encoding/json"
	"fmt"
	"math/big"
	"os"
	"strconv"
)

// ---- replay state (native only) ----

type replayFile struct {
	Property string                     `json:"property"`
	Harness  string                     `json:"harness"`
	Label    string                     `json:"label"`
	Thorough bool                       `json:"thorough"`
	Values   map[string]json.RawMessage `json:"values"`
}

var (
	replay   *replayFile
	counters = map[string]int{}
	// Failures collects failed assertions during a native replay.
	Failures []string
)

type AssumeFailed struct{ Msg string }

func load() {
	if replay != nil {
		return
	}
	replay = &replayFile{Values: map[string]json.RawMessage{}}
	p := os.Getenv("VERIF_REPLAY")
	if p == "" {
		return
	}
	bz, err := os.ReadFile(p)
	if err != nil {
		panic(err)
	}
	if err := json.Unmarshal(bz, replay); err != nil {
		panic(err)
	}
}

// ReplayHarness names the harness the replay file is for ("" when not replaying).
func ReplayHarness() string { load(); return replay.Harness }

// ReplayLabel is the label of the failed obligation.
func ReplayLabel() string { load(); return replay.Label }

// Reset clears per-run replay state.
func Reset() { counters = map[string]int{}; Failures = nil }

func key(name string) string {
	n := counters[name]
	counters[name] = n + 1
	if n == 0 {
		return name
	}
	return fmt.Sprintf("%s#%d", name, n)
}

func raw(name string) (map[string]interface{}, bool) {
	load()
	r, ok := replay.Values[key(name)]
	if !ok {
		return nil, false
	}
	var m map[string]interface{}
	if err := json.Unmarshal(r, &m); err != nil {
		var b bool
		if json.Unmarshal(r, &b) == nil {
			return map[string]interface{}{"bool": b}, true
		}
		return nil, false
	}
	return m, true
}

func rawU64(name string) uint64 {
	m, ok := raw(name)
	if !ok {
		return 0
	}
	if s, ok := m["bv"].(string); ok {
		v, _ := strconv.ParseUint(s, 10, 64)
		return v
	}
	if s, ok := m["int"].(string); ok {
		b, _ := new(big.Int).SetString(s, 10)
		return b.Uint64()
	}
	return 0
}

// ---- symbolic inputs ----

func Uint64(name string) uint64 { return rawU64(name) }
func Int64(name string) int64   { return int64(rawU64(name)) }
func Uint32(name string) uint32 { return uint32(rawU64(name)) }
func Int32(name string) int32   { return int32(rawU64(name)) }
func Byte(name string) byte     { return byte(rawU64(name)) }
func Int(name string) int       { return int(int64(rawU64(name))) }
func Bool(name string) bool {
	m, ok := raw(name)
	if !ok {
		return false
	}
	b, _ := m["bool"].(bool)
	return b
}

// String is an arbitrary string (any length, bytes 0..255).
func String(name string) string { return string(Bytes(name)) }

// Bytes is an arbitrary byte string of any length (Seq mode: one SMT String term).
func Bytes(name string) []byte {
	m, ok := raw(name)
	if !ok {
		return nil
	}
	s, _ := m["bytes"].(string)
	b, _ := hex.DecodeString(s)
	return b
}

// BytesN is a byte slice of exactly n independent symbolic bytes (Vec mode).
func BytesN(name string, n int) []byte {
	out := make([]byte, n)
	for i := range out {
		out[i] = Byte(fmt.Sprintf("%s[%d]", name, i))
	}
	return out
}

// BigInt is an arbitrary mathematical integer as decimal string holder (used for sdkmath.Int inputs).
func IntString(name string) string {
	m, ok := raw(name)
	if !ok {
		return "0"
	}
	if s, ok := m["int"].(string); ok {
		return s
	}
	return "0"
}

// Len forks over the concrete values lo..hi (a stated list-length bound).
func Len(name string, lo, hi int) int {
	v := int(rawU64(name))
	if v < lo {
		return lo
	}
	if v > hi {
		return hi
	}
	return v
}

// Choice forks over 0..n-1.
func Choice(name string, n int) int { return Len(name, 0, n-1) }

// ---- obligations ----

func Assume(c bool) {
	if !c {
		panic(AssumeFailed{"assumption violated in replay"})
	}
}

func Assert(c bool, label string) {
	if !c {
		Failures = append(Failures, label)
	}
}

// Reach is a vacuity witness: the engine requires the path condition here to be satisfiable on some path.
func Reach(label string) {}

// Note records an observation in the evidence.
func Note(msg string) {}

// NoPanic: from here on an uncaught Go panic is a violated obligation (default: panics are modelled outcomes).
func NoPanic() {}

// Panics runs f and reports whether it panicked.
func Panics(f func()) (p bool) {
	defer func() {
		if r := recover(); r != nil {
			if af, ok := r.(AssumeFailed); ok {
				panic(af)
			}
			p = true
		}
	}()
	f()
	return false
}

// PermuteMaps makes every subsequent map range visit its entries in a solver-chosen order.
func PermuteMaps(on bool) {}

// Unwind sets the loop bound for this harness (per loop header visits).
func Unwind(n int) {}

// ---- uninterpreted helpers available to harness-side specs ----

// Sha256 is the same uninterpreted function the engine uses for crypto/sha256.Sum256.
func Sha256(b []byte) []byte { return sha256Native(b) }

// DecU64 formats n as decimal (the engine's dec UF).
func DecU64(n uint64) string { return strconv.FormatUint(n, 10) }

// ---- world: context, stores, codec (engine intrinsics; native versions live in world_native.go) ----

// StGet reads key from the named symbolic store as seen through ctx (absent = empty).
func StGet(ctx context.Context, store string, key []byte) []byte { return nativeStGet(ctx, store, key) }
func StHas(ctx context.Context, store string, key []byte) bool {
	return len(nativeStGet(ctx, store, key)) != 0
}
func StSet(ctx context.Context, store string, key, val []byte) { nativeStSet(ctx, store, key, val) }
func StDel(ctx context.Context, store string, key []byte)      { nativeStSet(ctx, store, key, nil) }

// StSnapshot records the current contents of a store; StEqual / StEqualExcept compare against it.
// StGetInt / StSetInt: a store cell holding a non-negative integer (absent = zero, otherwise the canonical decimal of a
// positive integer). The engine reads and writes such cells without branching.
func StGetInt(ctx context.Context, store string, key []byte) sdkmath.Int {
	bz := nativeStGet(ctx, store, key)
	if len(bz) == 0 {
		return sdkmath.ZeroInt()
	}
	v, ok := sdkmath.NewIntFromString(string(bz))
	if !ok || !v.IsPositive() {
		panic("verif.StGetInt: cell does not hold a positive decimal: " + string(bz))
	}
	return v
}
func StSetInt(ctx context.Context, store string, key []byte, v sdkmath.Int) {
	if v.IsZero() {
		nativeStSet(ctx, store, key, nil)
		return
	}
	nativeStSet(ctx, store, key, []byte(v.String()))
}

func StSnapshot(ctx context.Context, store string) int { return nativeSnapshot(ctx, store) }
func StEqual(ctx context.Context, store string, snap int) bool {
	return nativeEqualExcept(ctx, store, snap, nil)
}
func StEqualExcept(ctx context.Context, store string, snap int, keys ...[]byte) bool {
	return nativeEqualExcept(ctx, store, snap, keys)
}
func StSnapGet(snap int, key []byte) []byte { return nativeSnapGet(snap, key) }

// Decode fills *ptr with arbitrary (uninterpreted) field values determined by bz; Encode is its inverse.
func Decode(bz []byte, ptr any)                    { nativeDecode(bz, ptr) }
func Encode(ptr any) []byte                        { return nativeEncode(ptr) }
func DecodeIface(bz []byte, ptrToIface any)        { nativeDecodeIface(bz, ptrToIface) }
func EncodeIface(v any, ifaceName string) []byte   { return nativeEncodeIface(v) }
func RegisterIface(ifaceName string, concrete any) {}
func RepeatedBound(fieldPath string, lo, hi int)   {}

// ghost call log (stubs record what the real code asked them)
func LogCall(name string, args ...any)           { nativeLogCall(name, args) }
func CallCount(name string) int                  { return nativeCallCount(name) }
func CallArgBytes(name string, k, i int) []byte  { return nativeCallArg(name, k, i).([]byte) }
func CallArgString(name string, k, i int) string { return nativeCallArg(name, k, i).(string) }
func CallArgUint64(name string, k, i int) uint64 { return nativeCallArg(name, k, i).(uint64) }

// DecodeOK: whether bz is a valid encoding for *ptr's type (true unless DecodeMayFail(true) was called).
func DecodeOK(bz []byte, ptr any) bool             { return true }
func DecodeIfaceOK(bz []byte, ptrToIface any) bool { return true }
func DecodeMayFail(on bool)                        {}

// UnpackAny models codectypes.AnyUnpacker for Any values built by the harness.
func UnpackAny(any *codectypes.Any, iface any) error { return nativeUnpackAny(any, iface) }

// StIterator iterates the small-scope ordered view of a store (see DESIGN 2.4).
func StIterator(ctx context.Context, store string, start, end []byte, reverse bool) corestore.Iterator {
	return nativeIterator(ctx, store, start, end, reverse)
}

// NewCtx returns a context with symbolic block height, time and chain id over fresh symbolic stores.
func NewCtx() sdk.Context { return nativeNewCtx() }

// ExactBigEndian(true): 8-byte big-endian words are exact byte vectors instead of the abstract injective encoding.
func ExactBigEndian(on bool) {}

// CollisionFree(true): assume the hash functions are injective on the values that occur (stated per harness).
func CollisionFree(on bool) {}

// ExactDecimalLengths(true): decimal formatting gets exact digit-count axioms (len(dec n) = k iff 10^(k-1) <= n < 10^k).
func ExactDecimalLengths(on bool) {}

// Thorough reports whether the run is the thorough tier (harnesses widen their bounds with it).
func Thorough() bool {
	load()
	return replay.Thorough
}

// And / Or / Implies build boolean terms without branching (both operands are always evaluated): use them in
// harness-side specifications to avoid forking the symbolic execution on every comparison.
func And(a, b bool) bool     { return a && b }
func Or(a, b bool) bool      { return a || b }
func Implies(a, b bool) bool { return !a || b }

// SdkInt is an arbitrary mathematical integer as a cosmossdk.io/math.Int.
func SdkInt(name string) sdkmath.Int {
	v, ok := sdkmath.NewIntFromString(IntString(name))
	if !ok {
		return sdkmath.ZeroInt()
	}
	return v
}

// AbstractIdentifiers(true): the engine treats ibc-go's identifier syntax rule (24-host defaultIdentifierValidator) on
// symbolic strings as an uninterpreted predicate implying only non-blank, separator-free and the length range;
// counterexamples are re-checked against the real rule. Sound for properties that hold whatever the rule accepts.
// In the same mode strings.TrimSpace is fully uninterpreted except for its emptiness test.
func AbstractIdentifiers(on bool) {}

// StClosePrefix declares that the pre-state of the named store holds no key with the given prefix: the keys in that
// range are then exactly those the harness (through the real setters) and the code under test write, which is what
// lets the engine enumerate them for iterators. Native replay: the store starts empty there anyway.
func StClosePrefix(ctx context.Context, store string, prefix []byte) {}

// LightDecimals(true): decimal formatting of integers is characterised by its inverse and by "1..20 digits" only (the
// no-leading-zeros fact is dropped): enough for keys that embed decimal heights, much cheaper for the string solvers.
func LightDecimals(on bool) {}

// AbstractHopSyntax(true): channeltypes.IsValidChannelID and clienttypes.IsValidClientID on symbolic strings are
// uninterpreted predicates implying their format regular expressions; counterexamples are concretised against the
// real functions. Sound for properties that hold whatever identifiers look like hops.
func AbstractHopSyntax(on bool) {}
