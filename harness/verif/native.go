package verif

import (
	"crypto/sha256"
	"encoding/json"
	"os"
)

func osReadFile() ([]byte, error)          { return os.ReadFile(os.Getenv("VERIF_REPLAY")) }
func jsonUnmarshal(bz []byte, v any) error { return json.Unmarshal(bz, v) }

func sha256Native(b []byte) []byte { h := sha256.Sum256(b); return h[:] }

// TB is the subset of testing.TB that RunReplay needs.
type TB interface {
	Logf(format string, args ...any)
	Fatalf(format string, args ...any)
}

// RunReplay re-executes, natively and against the real ibc-go code, the harness named in the
// VERIF_REPLAY file with the solver's values, and prints a REPLAY-RESULT line:
//
//	reproduced      the recorded obligation fails natively (assertion false / panic for nopanic)
//	not-reproduced  the harness ran to the end and the obligation held
//	assume-failed   an assumption does not hold for these values (the model was an abstraction artefact)
func RunReplay(t TB, harnesses map[string]func()) {
	load()
	name := replay.Harness
	if name == "" {
		t.Logf("REPLAY-RESULT: no-replay-file")
		return
	}
	h, ok := harnesses[name]
	if !ok {
		t.Fatalf("REPLAY-RESULT: error (no harness %s in this package)", name)
		return
	}
	Reset()
	var kind struct {
		Kind string `json:"kind"`
	}
	if bz, err := osReadFile(); err == nil {
		_ = jsonUnmarshal(bz, &kind)
	}
	status := "not-reproduced"
	func() {
		defer func() {
			if r := recover(); r != nil {
				if _, ok := r.(AssumeFailed); ok {
					status = "assume-failed"
					return
				}
				t.Logf("harness panicked: %v", r)
				if kind.Kind == "nopanic" {
					status = "reproduced"
				} else {
					status = "panicked"
				}
			}
		}()
		h()
	}()
	if status == "not-reproduced" {
		for _, f := range Failures {
			if f == replay.Label {
				status = "reproduced"
			}
		}
		if status != "reproduced" && len(Failures) > 0 {
			t.Logf("other assertions failed: %v", Failures)
		}
	}
	t.Logf("REPLAY-RESULT: %s (harness %s, label %q)", status, name, replay.Label)
}

func replayPath() string { return os.Getenv("VERIF_REPLAY") }
