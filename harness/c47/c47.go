// Package c47: stateless validation and parsers never panic. Each harness feeds arbitrary strings / arbitrary field
// values to one family of ibc-go's stateless functions under verif.NoPanic(): every path that ends in a Go panic
// (explicit, nil dereference, index or slice out of range, division by zero) is an obligation.
package c47

import (
	"strings"

	sdkmath "cosmossdk.io/math"

	sdk "github.com/cosmos/cosmos-sdk/types"

	transfertypes "github.com/cosmos/ibc-go/v11/modules/apps/transfer/types"
	clienttypes "github.com/cosmos/ibc-go/v11/modules/core/02-client/types"
	conntypes "github.com/cosmos/ibc-go/v11/modules/core/03-connection/types"
	chantypes "github.com/cosmos/ibc-go/v11/modules/core/04-channel/types"
	v2 "github.com/cosmos/ibc-go/v11/modules/core/04-channel/v2/types"
	commitmenttypes "github.com/cosmos/ibc-go/v11/modules/core/23-commitment/types"
	host "github.com/cosmos/ibc-go/v11/modules/core/24-host"

	"verifharness/models"
	"verifharness/verif"
)

// joined is an arbitrary string of 1..max pieces that do not contain sep, joined by sep: every string with at most
// max-1 occurrences of the separator the parser splits on.
func joined(tag, sep string, max int) string {
	n := verif.Len(tag+".pieces", 1, max)
	var ps []string
	for i := 0; i < n; i++ {
		x := verif.String(tag + ".piece" + string(rune('0'+i)))
		verif.Assume(!strings.Contains(x, sep))
		ps = append(ps, x)
	}
	return strings.Join(ps, sep)
}

func height(tag string) clienttypes.Height {
	return clienttypes.NewHeight(verif.Uint64(tag+".rev"), verif.Uint64(tag+".height"))
}

// HarnessIdentifierParsers: every identifier / height / sequence parser on an arbitrary string.
func HarnessIdentifierParsers() {
	verif.NoPanic()
	s := joined("input", "-", 4)
	switch verif.Choice("parser", 9) {
	case 0:
		_, _ = clienttypes.ParseHeight(s)
	case 1:
		_, _, _ = clienttypes.ParseClientIdentifier(s)
	case 2:
		_ = clienttypes.IsValidClientID(s)
	case 3:
		_, _ = chantypes.ParseChannelSequence(s)
	case 4:
		_, _ = conntypes.ParseConnectionSequence(s)
	case 5:
		_ = clienttypes.ValidateClientType(s)
	case 6:
		_ = clienttypes.ParseChainID(s)
	case 7:
		_, _ = host.ParseIdentifier(s, "connection-")
	default:
		_ = clienttypes.IsRevisionFormat(s)
	}
	verif.Reach("parsed")
}

// HarnessIdentifierValidators: the 24-host validators on an arbitrary string.
func HarnessIdentifierValidators() {
	verif.NoPanic()
	s := joined("input", "/", 3)
	switch verif.Choice("validator", 5) {
	case 0:
		_ = host.ClientIdentifierValidator(s)
	case 1:
		_ = host.ConnectionIdentifierValidator(s)
	case 2:
		_ = host.ChannelIdentifierValidator(s)
	case 3:
		_ = host.PortIdentifierValidator(s)
	default:
		_ = host.NewPathValidator(host.PortIdentifierValidator)(s)
	}
	verif.Reach("validated")
}

// HarnessDenomParsers: denomination parsing and validation on arbitrary strings.
func HarnessDenomParsers() {
	verif.NoPanic()
	verif.AbstractHopSyntax(true)
	s := joined("input", "/", 4)
	switch verif.Choice("parser", 4) {
	case 0:
		d := transfertypes.ExtractDenomFromPath(s)
		_ = d.Validate()
		_ = d.Path()
		_ = d.IBCDenom()
	case 1:
		_, _ = transfertypes.ParseHexHash(s)
	case 2:
		_ = transfertypes.FungibleTokenPacketData{Denom: s, Amount: verif.String("amount"), Sender: "sender", Receiver: "receiver", Memo: ""}.ValidateBasic()
	default:
		t := transfertypes.Token{Denom: transfertypes.Denom{Base: s, Trace: []transfertypes.Hop{{PortId: verif.String("port"), ChannelId: verif.String("channel")}}}, Amount: verif.String("amount")}
		_ = t.Validate()
	}
	verif.Reach("parsed")
}

func symPacket() chantypes.Packet {
	return chantypes.Packet{Sequence: verif.Uint64("sequence"), SourcePort: verif.String("sourcePort"), SourceChannel: verif.String("sourceChannel"),
		DestinationPort: verif.String("destPort"), DestinationChannel: verif.String("destChannel"), Data: verif.Bytes("data"),
		TimeoutHeight: height("timeout"), TimeoutTimestamp: verif.Uint64("timeoutTimestamp")}
}

// HarnessV1PacketMsgs: ValidateBasic of the v1 packet messages with arbitrary fields (signer from the account pool or arbitrary text).
func HarnessV1PacketMsgs() {
	verif.NoPanic()
	signer := models.SymAccountN("signer", 2)
	if verif.Bool("garbageSigner") {
		signer = "not-an-address"
	}
	p := symPacket()
	switch verif.Choice("msg", 4) {
	case 0:
		_ = chantypes.MsgRecvPacket{Packet: p, ProofCommitment: verif.Bytes("proof"), ProofHeight: height("proofHeight"), Signer: signer}.ValidateBasic()
	case 1:
		_ = chantypes.MsgTimeout{Packet: p, ProofUnreceived: verif.Bytes("proof"), ProofHeight: height("proofHeight"), NextSequenceRecv: verif.Uint64("next"), Signer: signer}.ValidateBasic()
	case 2:
		_ = chantypes.MsgAcknowledgement{Packet: p, Acknowledgement: verif.Bytes("ack"), ProofAcked: verif.Bytes("proof"), ProofHeight: height("proofHeight"), Signer: signer}.ValidateBasic()
	default:
		_ = chantypes.MsgTimeoutOnClose{Packet: p, ProofUnreceived: verif.Bytes("proof"), ProofClose: verif.Bytes("proofClose"), ProofHeight: height("proofHeight"), NextSequenceRecv: verif.Uint64("next"), Signer: signer}.ValidateBasic()
	}
	verif.Reach("validated")
}

// HarnessV2PacketMsgs: ValidateBasic of the v2 packet messages with 0..2 arbitrary payloads.
func HarnessV2PacketMsgs() {
	verif.NoPanic()
	signer := models.SymAccountN("signer", 2)
	p := v2.Packet{Sequence: verif.Uint64("sequence"), SourceClient: verif.String("sourceClient"), DestinationClient: verif.String("destClient"), TimeoutTimestamp: verif.Uint64("timeout")}
	for i, n := 0, verif.Len("payloads", 0, 2); i < n; i++ {
		t := "pl" + string(rune('0'+i))
		p.Payloads = append(p.Payloads, v2.Payload{SourcePort: verif.String(t + ".src"), DestinationPort: verif.String(t + ".dst"), Version: verif.String(t + ".version"), Encoding: verif.String(t + ".encoding"), Value: verif.Bytes(t + ".value")})
	}
	switch verif.Choice("msg", 4) {
	case 0:
		_ = (&v2.MsgSendPacket{SourceClient: p.SourceClient, TimeoutTimestamp: p.TimeoutTimestamp, Payloads: p.Payloads, Signer: signer}).ValidateBasic()
	case 1:
		_ = (&v2.MsgRecvPacket{Packet: p, ProofCommitment: verif.Bytes("proof"), ProofHeight: height("proofHeight"), Signer: signer}).ValidateBasic()
	case 2:
		ack := v2.Acknowledgement{}
		for i, n := 0, verif.Len("acks", 0, 2); i < n; i++ {
			ack.AppAcknowledgements = append(ack.AppAcknowledgements, verif.Bytes("ack"+string(rune('0'+i))))
		}
		_ = (&v2.MsgAcknowledgement{Packet: p, Acknowledgement: ack, ProofAcked: verif.Bytes("proof"), ProofHeight: height("proofHeight"), Signer: signer}).ValidateBasic()
	default:
		_ = (&v2.MsgTimeout{Packet: p, ProofUnreceived: verif.Bytes("proof"), ProofHeight: height("proofHeight"), Signer: signer}).ValidateBasic()
	}
	verif.Reach("validated")
}

// HarnessHandshakeMsgs: ValidateBasic of connection and channel handshake messages with arbitrary fields.
func HarnessHandshakeMsgs() {
	verif.NoPanic()
	signer := models.SymAccountN("signer", 2)
	ch := chantypes.Channel{State: chantypes.State(verif.Int32("state")), Ordering: chantypes.Order(verif.Int32("ordering")),
		Counterparty: chantypes.Counterparty{PortId: verif.String("cpPort"), ChannelId: verif.String("cpChannel")}, Version: verif.String("version")}
	for i, n := 0, verif.Len("hops", 0, 2); i < n; i++ {
		ch.ConnectionHops = append(ch.ConnectionHops, verif.String("hop"+string(rune('0'+i))))
	}
	cp := conntypes.Counterparty{ClientId: verif.String("cpClient"), ConnectionId: verif.String("cpConnection"), Prefix: commitmenttypes.NewMerklePrefix(verif.Bytes("prefix"))}
	switch verif.Choice("msg", 6) {
	case 0:
		_ = chantypes.MsgChannelOpenInit{PortId: verif.String("port"), Channel: ch, Signer: signer}.ValidateBasic()
	case 1:
		_ = chantypes.MsgChannelOpenTry{PortId: verif.String("port"), Channel: ch, CounterpartyVersion: verif.String("cpVersion"), ProofInit: verif.Bytes("proof"), ProofHeight: height("proofHeight"), Signer: signer}.ValidateBasic()
	case 2:
		_ = chantypes.MsgChannelOpenAck{PortId: verif.String("port"), ChannelId: verif.String("channel"), CounterpartyChannelId: verif.String("cpChannelId"), CounterpartyVersion: verif.String("cpVersion"), ProofTry: verif.Bytes("proof"), ProofHeight: height("proofHeight"), Signer: signer}.ValidateBasic()
	case 3:
		_ = chantypes.MsgChannelOpenConfirm{PortId: verif.String("port"), ChannelId: verif.String("channel"), ProofAck: verif.Bytes("proof"), ProofHeight: height("proofHeight"), Signer: signer}.ValidateBasic()
	case 4:
		_ = conntypes.MsgConnectionOpenInit{ClientId: verif.String("client"), Counterparty: cp, DelayPeriod: verif.Uint64("delay"), Signer: signer}.ValidateBasic()
	default:
		_ = conntypes.MsgConnectionOpenConfirm{ConnectionId: verif.String("connection"), ProofAck: verif.Bytes("proof"), ProofHeight: height("proofHeight"), Signer: signer}.ValidateBasic()
	}
	verif.Reach("validated")
}

// HarnessMsgTransfer: MsgTransfer.ValidateBasic with arbitrary fields.
func HarnessMsgTransfer() {
	verif.NoPanic()
	amt := verif.SdkInt("amount")
	msg := transfertypes.MsgTransfer{SourcePort: verif.String("port"), SourceChannel: verif.String("channel"), Token: sdk.Coin{Denom: verif.String("denom"), Amount: amt},
		Sender: models.SymAccountN("sender", 2), Receiver: verif.String("receiver"), TimeoutHeight: height("timeout"), TimeoutTimestamp: verif.Uint64("timeoutTimestamp"),
		Memo: verif.String("memo"), Encoding: verif.String("encoding"), UseAliasing: verif.Bool("aliasing")}
	verif.Assume(len(msg.Memo) <= 64 && len(msg.Receiver) <= 64)
	_ = msg.ValidateBasic()
	verif.Reach("validated")
}

var _ = sdkmath.ZeroInt
