// Package c25: client recovery is gated and touches only the subject. (The upgrade half of the property needs ICS-23
// proof verification and is outside this check.)
package c25

import (
	"bytes"
	"time"
	_ "unsafe"

	"github.com/cosmos/cosmos-sdk/codec"
	storetypes "github.com/cosmos/cosmos-sdk/store/v2/types"

	clienttypes "github.com/cosmos/ibc-go/v11/modules/core/02-client/types"
	commitmenttypes "github.com/cosmos/ibc-go/v11/modules/core/23-commitment/types"
	host "github.com/cosmos/ibc-go/v11/modules/core/24-host"
	"github.com/cosmos/ibc-go/v11/modules/core/exported"
	ibctm "github.com/cosmos/ibc-go/v11/modules/light-clients/07-tendermint"

	"verifharness/models"
	"verifharness/verif"
)

//go:linkname setConsensusState github.com/cosmos/ibc-go/v11/modules/light-clients/07-tendermint.setConsensusState
func setConsensusState(clientStore storetypes.KVStore, cdc codec.BinaryCodec, consensusState *ibctm.ConsensusState, height exported.Height)

//go:linkname setConsensusMetadataWithValues github.com/cosmos/ibc-go/v11/modules/light-clients/07-tendermint.setConsensusMetadataWithValues
func setConsensusMetadataWithValues(clientStore storetypes.KVStore, height, processedHeight exported.Height, processedTime uint64)

// HarnessRecoverGated: 02-client RecoverClient against an arbitrary light-client module: the module is asked to recover
// only a subject that is not Active, with a substitute that is Active and strictly higher.
func HarnessRecoverGated() {
	w := models.NewWorld()
	w.SetParams()
	subject, substitute := models.ClientID, models.ClientType+"-1"
	err := w.IBC.ClientKeeper.RecoverClient(w.Ctx, subject, substitute)
	verif.Reach("returned")
	if verif.CallCount("RecoverClient") == 0 {
		verif.Reach("not attempted")
		verif.Assert(err != nil, "a recovery that is not attempted is an error")
		return
	}
	verif.Reach("attempted")
	verif.Assert(verif.CallCount("RecoverClient") == 1 && verif.CallArgString("RecoverClient", 0, 0) == subject && verif.CallArgString("RecoverClient", 0, 1) == substitute, "the light client recovers exactly the named subject from the named substitute")
	verif.Assert(verif.CallCount("Status") == 2 && verif.CallArgString("Status", 0, 0) == subject && verif.CallArgString("Status", 1, 0) == substitute, "both statuses are consulted")
	verif.Assert(verif.CallArgString("Status", 0, 1) != string(exported.Active), "the subject is not Active")
	verif.Assert(verif.CallArgString("Status", 1, 1) == string(exported.Active), "the substitute is Active")
	verif.Assert(verif.CallCount("LatestHeight") == 2 && verif.CallArgString("LatestHeight", 0, 0) == subject && verif.CallArgString("LatestHeight", 1, 0) == substitute, "both latest heights are consulted")
	sub := clienttypes.NewHeight(verif.CallArgUint64("LatestHeight", 0, 1), verif.CallArgUint64("LatestHeight", 0, 2))
	sst := clienttypes.NewHeight(verif.CallArgUint64("LatestHeight", 1, 1), verif.CallArgUint64("LatestHeight", 1, 2))
	verif.Assert(sub.LT(sst), "the substitute is at a strictly greater latest height")
}

func symClient(tag string) *ibctm.ClientState {
	return &ibctm.ClientState{
		ChainId:         verif.String(tag + ".chainID"),
		TrustLevel:      ibctm.Fraction{Numerator: verif.Uint64(tag + ".trustNum"), Denominator: verif.Uint64(tag + ".trustDen")},
		TrustingPeriod:  time.Duration(verif.Int64(tag + ".trusting")),
		UnbondingPeriod: time.Duration(verif.Int64(tag + ".unbonding")),
		MaxClockDrift:   time.Duration(verif.Int64(tag + ".drift")),
		FrozenHeight:    clienttypes.NewHeight(verif.Uint64(tag+".frozen.rev"), verif.Uint64(tag+".frozen.height")),
		LatestHeight:    clienttypes.NewHeight(verif.Uint64(tag+".latest.rev"), verif.Uint64(tag+".latest.height")),
	}
}

// HarnessTendermintSubstitute: CheckSubstituteAndUpdateState with arbitrary subject and substitute client states and a
// substitute store that does or does not hold the substitute's latest consensus state and its metadata.
func HarnessTendermintSubstitute() {
	verif.LightDecimals(true)
	for _, n := range []string{"github.com/cosmos/ibc-go/v11/modules/core/exported.ConsensusState", ""} {
		verif.RegisterIface(n, &ibctm.ConsensusState{})
	}
	for _, n := range []string{"github.com/cosmos/ibc-go/v11/modules/core/exported.ClientState", ""} {
		verif.RegisterIface(n, &ibctm.ClientState{})
	}
	verif.MountStores("substitute")
	ctx := verif.NewCtx()
	subjectStore := models.KVStoreAdapter(models.Store{Ctx: ctx, Name: "client"})
	substituteStore := models.KVStoreAdapter(models.Store{Ctx: ctx, Name: "substitute"})
	subject, substitute := symClient("subject"), symClient("substitute")
	h := substitute.LatestHeight
	sec := verif.Int64("consensus.sec")
	verif.Assume(sec >= 0 && sec < 253402300800)
	cons := &ibctm.ConsensusState{Timestamp: time.Unix(sec, 0).UTC(), Root: commitmenttypes.NewMerkleRoot(verif.Bytes("consensus.root")), NextValidatorsHash: verif.Bytes("consensus.valhash")}
	verif.Assume(len(cons.Root.Hash) > 0)
	if verif.Bool("substituteHasConsensusState") {
		setConsensusState(substituteStore, models.Codec{}, cons, h)
	} else {
		verif.Assume(len(verif.StGet(ctx, "substitute", host.ConsensusStateKey(h))) == 0)
	}
	if verif.Bool("substituteHasMetadata") {
		setConsensusMetadataWithValues(substituteStore, h, clienttypes.NewHeight(verif.Uint64("processed.rev"), verif.Uint64("processed.height")), verif.Uint64("processed.time"))
	}
	before := *subject
	subjSnap, substSnap := verif.StSnapshot(ctx, "client"), verif.StSnapshot(ctx, "substitute")
	err := subject.CheckSubstituteAndUpdateState(ctx, models.Codec{}, subjectStore, substituteStore, substitute)
	verif.Reach("returned")
	verif.Assert(verif.StEqual(ctx, "substitute", substSnap), "the substitute client is never modified")
	if err != nil {
		verif.Reach("refused")
		return
	}
	verif.Reach("recovered")
	verif.Assert(before.TrustLevel == substitute.TrustLevel && before.UnbondingPeriod == substitute.UnbondingPeriod && before.MaxClockDrift == substitute.MaxClockDrift, "recovery needs matching trust level, unbonding period and clock drift")
	verif.Assert(subject.FrozenHeight.IsZero(), "the subject is unfrozen")
	verif.Assert(subject.LatestHeight.EQ(substitute.LatestHeight) && subject.ChainId == substitute.ChainId && subject.TrustingPeriod == substitute.TrustingPeriod, "the subject adopts the substitute's latest height, chain id and trusting period")
	verif.Assert(subject.TrustLevel == before.TrustLevel && subject.UnbondingPeriod == before.UnbondingPeriod && subject.MaxClockDrift == before.MaxClockDrift, "the subject keeps its own remaining parameters")
	got, found := ibctm.GetConsensusState(subjectStore, models.Codec{}, h)
	verif.Assert(found && got.Timestamp.Equal(cons.Timestamp) && bytes.Equal(got.Root.Hash, cons.Root.Hash) && bytes.Equal(got.NextValidatorsHash, cons.NextValidatorsHash), "the subject holds the substitute's latest consensus state")
	verif.Assert(verif.StEqualExcept(ctx, "client", subjSnap, host.ClientStateKey(), host.ConsensusStateKey(h), ibctm.ProcessedTimeKey(h), ibctm.ProcessedHeightKey(h), ibctm.IterationKey(h)), "nothing else in the subject's store changes")
}
