// Package c08: sends allocate consecutive sequences and respect the send-time guards.
package c08

import (
	"bytes"
	"math"
	"time"

	chantypes "github.com/cosmos/ibc-go/v11/modules/core/04-channel/types"
	v2 "github.com/cosmos/ibc-go/v11/modules/core/04-channel/v2/types"
	host "github.com/cosmos/ibc-go/v11/modules/core/24-host"
	hostv2 "github.com/cosmos/ibc-go/v11/modules/core/24-host/v2"

	"verifharness/corekit"
	"verifharness/models"
	"verifharness/verif"
)

// HarnessV1Send: success of the v1 SendPacket implies returned = nextSequenceSend(pre), post = pre+1, exactly the
// commitment of the built packet at that sequence is written, and every send-time guard held; failure changes nothing.
func HarnessV1Send() {
	s := corekit.SendSide()
	w, p := s.W, s.P
	next, found := w.IBC.ChannelKeeper.GetNextSequenceSend(w.Ctx, p.SourcePort, p.SourceChannel)
	verif.Assume(!found || next < math.MaxUint64) // wrap-around of the counter is outside the claim
	snap := verif.StSnapshot(w.Ctx, "ibc")
	seq, err := w.IBC.ChannelKeeper.SendPacket(w.Ctx, p.SourcePort, p.SourceChannel, p.TimeoutHeight, p.TimeoutTimestamp, p.Data)
	verif.Reach("returned")
	if err != nil {
		verif.Reach("rejected")
		verif.Assert(verif.StEqual(w.Ctx, "ibc", snap), "a rejected send changes no state")
		return
	}
	verif.Reach("sent")
	verif.Assert(found && seq == next, "the packet gets the channel's next send sequence")
	after, _ := w.IBC.ChannelKeeper.GetNextSequenceSend(w.Ctx, p.SourcePort, p.SourceChannel)
	verif.Assert(after == next+1, "nextSequenceSend advances by exactly one")
	v2next, _ := w.IBC.ChannelKeeperV2.GetNextSequenceSend(w.Ctx, p.SourceChannel)
	verif.Assert(v2next == next+1, "v1 and v2 sends on the same channel id share one counter")
	sent := chantypes.NewPacket(p.Data, seq, p.SourcePort, p.SourceChannel, s.Ch.Counterparty.PortId, s.Ch.Counterparty.ChannelId, p.TimeoutHeight, p.TimeoutTimestamp)
	verif.Assert(bytes.Equal(w.IBC.ChannelKeeper.GetPacketCommitment(w.Ctx, p.SourcePort, p.SourceChannel, seq), chantypes.CommitPacket(sent)), "the commitment of exactly the sent packet is stored at its sequence")
	verif.Assert(verif.StEqualExcept(w.Ctx, "ibc", snap, hostv2.NextSequenceSendKey(p.SourceChannel), host.PacketCommitmentKey(p.SourcePort, p.SourceChannel, seq)), "send writes only the counter and this packet's commitment")
	// guards
	verif.Assert(s.Ch.State == chantypes.OPEN, "channel is OPEN")
	verif.Assert(verif.CallCount("Status") >= 1 && verif.CallArgString("Status", 0, 1) == "Active", "client is Active")
	lrev, lh := verif.CallArgUint64("LatestHeight", 0, 1), verif.CallArgUint64("LatestHeight", 0, 2)
	verif.Assert(lrev != 0 || lh != 0, "client latest height is non-zero")
	lts := verif.CallArgUint64("TimestampAtHeight", 0, 3)
	verif.Assert(!chantypes.NewTimeout(p.TimeoutHeight, p.TimeoutTimestamp).Elapsed(corekit.HeightOf(lrev, lh), lts), "timeout not already passed on the counterparty as known locally")
	verif.Assert(!p.TimeoutHeight.IsZero() || p.TimeoutTimestamp != 0, "some timeout is set")
}

// HarnessV2Send: the v2 msg-server SendPacket.
func HarnessV2Send() {
	s := corekit.SendSideV2(1, 2)
	w, p := s.W, s.P
	next, found := w.IBC.ChannelKeeperV2.GetNextSequenceSend(w.Ctx, s.Local)
	verif.Assume(!found || next < math.MaxUint64)
	snap := verif.StSnapshot(w.Ctx, "ibc")
	res, err := w.IBC.ChannelKeeperV2.SendPacket(w.Ctx, &v2.MsgSendPacket{SourceClient: s.Local, TimeoutTimestamp: p.TimeoutTimestamp, Payloads: p.Payloads, Signer: models.Relayer})
	verif.Reach("returned")
	if err != nil {
		verif.Reach("rejected")
		if verif.CallCount("V2.OnSendPacket") == 0 {
			verif.Assert(verif.StEqual(w.Ctx, "ibc", snap), "a send rejected before the application callback changes no state")
		}
		return
	}
	verif.Reach("sent")
	verif.Assert(found && res.Sequence == next, "the packet gets the next send sequence of its source identifier")
	after, _ := w.IBC.ChannelKeeperV2.GetNextSequenceSend(w.Ctx, s.Local)
	verif.Assert(after == next+1, "nextSequenceSend advances by exactly one")
	sent := v2.NewPacket(res.Sequence, s.Local, s.CP.ClientID, p.TimeoutTimestamp, p.Payloads...)
	verif.Assert(bytes.Equal(w.IBC.ChannelKeeperV2.GetPacketCommitment(w.Ctx, s.Local, res.Sequence), v2.CommitPacket(sent)), "the commitment of exactly the sent packet is stored under the source identifier")
	verif.Assert(verif.StEqualExcept(w.Ctx, "ibc", snap, hostv2.NextSequenceSendKey(s.Local), hostv2.PacketCommitmentKey(s.Local, res.Sequence)), "send writes only the counter and this packet's commitment")
	verif.Assert(verif.CallCount("V2.OnSendPacket") == len(p.Payloads), "application callback runs once per payload")
	// guards (all in whole seconds)
	nowSec := w.Ctx.BlockTime().Unix()
	verif.Assert(p.TimeoutTimestamp <= math.MaxInt64 && int64(p.TimeoutTimestamp) > nowSec, "timeout is after the current block time")
	verif.Assert(p.TimeoutTimestamp <= math.MaxInt64 && int64(p.TimeoutTimestamp) <= nowSec+int64(v2.MaxTimeoutDelta/time.Second), "timeout is at most MaxTimeoutDelta ahead")
	verif.Assert(verif.CallCount("Status") >= 1 && verif.CallArgString("Status", 0, 1) == "Active", "client is Active")
	verif.Assert(verif.CallArgString("Status", 0, 0) == models.ClientID, "status of the resolved light client is checked")
	lrev, lh := verif.CallArgUint64("LatestHeight", 0, 1), verif.CallArgUint64("LatestHeight", 0, 2)
	verif.Assert(lrev != 0 || lh != 0, "client latest height is non-zero")
	lts := verif.CallArgUint64("TimestampAtHeight", 0, 3)
	verif.Assert(uint64(time.Unix(0, int64(lts)).Unix()) < p.TimeoutTimestamp, "timeout is after the counterparty time known locally (seconds)")
}
