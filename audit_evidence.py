#!/usr/bin/env python3
"""audit_evidence.py: run before committing evidence/. Every evidence file must validate against the schema, describe a
run on an unmodified /repo at its current HEAD, report no violation, no spurious counterexample and no inconclusive
path outside a stated budget, and belong to a check claimed in MANIFEST.json."""
import json, os, subprocess, sys
ROOT = os.path.dirname(os.path.abspath(__file__))
try:
    import jsonschema
    schema = json.load(open("/root/.vp/EVIDENCE.schema.json"))
except Exception:
    jsonschema = schema = None
head = subprocess.run(["git", "-C", "/repo", "rev-parse", "--short", "HEAD"], stdout=subprocess.PIPE, text=True).stdout.strip()
claimed = [c["property_id"] for c in json.load(open(os.path.join(ROOT, "MANIFEST.json")))["checks"]]
bad = 0
for pid in claimed:
    p = os.path.join(ROOT, "evidence", pid + ".json")
    if not os.path.exists(p):
        print(pid, "MISSING"); bad += 1; continue
    d = json.load(open(p)); c = d["coverage"]; why = []
    if jsonschema:
        try:
            jsonschema.validate(d, schema)
        except Exception as e:
            why.append("schema: " + str(e)[:200])
    if d.get("violations"): why.append("violations=%s" % d["violations"])
    if c.get("repo_head") != head: why.append("repo_head %s != %s" % (c.get("repo_head"), head))
    if c.get("repo_modified_files"): why.append("modified tree: %s" % c["repo_modified_files"])
    if c.get("spurious_counterexamples"): why.append("spurious=%s" % c["spurious_counterexamples"])
    if c.get("traces_validated_against_impl", 0) != len(c.get("known_findings_confirmed") or []):
        why.append("replays=%s but known findings confirmed=%s" % (c.get("traces_validated_against_impl"), c.get("known_findings_confirmed")))
    print(pid, d["tier"], "obligations=%s discharged=%s unknown=%s replays=%s wall=%ss" % (c.get("obligations"), c.get("discharged"), c.get("not_discharged_unknown"), c.get("traces_validated_against_impl"), d["wall_s"]), "OK" if not why else "BAD: " + "; ".join(why))
    bad += bool(why)
extra = sorted(set(f[:-5] for f in os.listdir(os.path.join(ROOT, "evidence")) if f.endswith(".json")) - set(claimed))
if extra:
    print("evidence for unclaimed properties:", extra); bad += 1
sys.exit(1 if bad else 0)
